"""C10 — WebSocket frames encode to the RFC 6455 layout and decode back under any split (structural clauses)."""
from .. import core, tables, panics
from ..core import describe, desc_contains

OPCODES = {"Continuation": 0, "Text": 1, "Binary": 2, "Close": 8, "Ping": 9, "Pong": 10}   # RFC 6455 §11.8
DEC = "humphrey_ws::frame::Frame::from_stream_inner"


def find(d, pred, out=None):
    out = [] if out is None else out
    if isinstance(d, tuple):
        if pred(d):
            out.append(d)
        for x in d:
            find(x, pred, out)
    elif isinstance(d, list):
        for x in d:
            find(x, pred, out)
    return out


def mask_of(d):
    """(byte index, mask) for `(header[i] & m) != 0` / `header[i] & m`."""
    hits = find(d, lambda y: y[0] == "bin" and y[1] == "BitAnd")
    for h in hits:
        for a, b in ((h[2], h[3]), (h[3], h[2])):
            if b[0] == "lit" and isinstance(b[1], int) and a[0] == "index" and a[2][0] == "lit":
                return a[2][1], b[1]
    return None


def exact_reads(chk, prog, rid):
    """every read of the blocking frame decoder is a read_exact whose failure is an error: a frame is complete or it is not delivered"""
    # R3 reads
    bad = []
    good = 0
    for fn in ("humphrey_ws::frame::Frame::from_stream", DEC):
        fb = prog.bodies.get(fn)
        chk.floor(fn.split("::")[-1], 1 if fb else 0, 1)
        if not fb:
            continue
        for blk, t in fb.calls():
            if core.call_matches(t, r"(^|::)std::io::Read::(read|read_to_end|read_vectored|read_buf)$"):
                bad.append((fn, blk))
            if core.call_matches(t, r"std::io::Read::read_exact$"):
                good += 1
                # mapped to ReadError and propagated
                d = describe(prog, fb, {"k": "copy", "pl": t["dest"]})
                users = [c for blk2, c in fb.calls_to(r"Result::<T, E>::map_err$") if core.op_local(c["args"][0]) == t["dest"]["l"]]
                handled = bool(users)
                # ... and to ReadError whatever the I/O error kind is: a frame cut off by the peer's disconnect is a read error, not an orderly close
                for c_ in users:
                    f_ = describe(prog, fb, c_["args"][1]) if len(c_["args"]) > 1 else None
                    mb = prog.bodies.get(f_[1]) if isinstance(f_, tuple) and f_[0] in ("closure", "fn") and isinstance(f_[1], str) else None
                    if mb is not None:
                        r_ = describe(prog, mb, 0)
                        alts_ = r_[1] if isinstance(r_, tuple) and r_[0] == "multi" else [r_]
                        only_read = all(isinstance(a_, tuple) and a_[0] == "variant" and a_[2] == "ReadError" for a_ in alts_)
                        chk.ob(rid, fn, "a failed read_exact is reported as ReadError for every error kind", only_read,
                               f"the error mapper returns {[a_[2] if isinstance(a_, tuple) and a_[0] == 'variant' else '?' for a_ in alts_]}: a truncated frame is reported as something other than a read error "
                               "(e.g. as an orderly close, after which the stream is marked closed)", where=fb.where(blk))
                if not handled:
                    # `match stream.read_exact(..) { Ok(()) => .., Err(_) => return Err(..) }`: the Err edge only leads to error returns
                    from .c01 import some_edge_of as _soe
                    oks_ = core.ok_return_blocks(fb, "Ok")
                    errs_ = _soe(prog, fb, blk, "Err")
                    later = [b2 for b2, t2 in fb.calls() if core.call_matches(t2, r"Read::read_exact$") and b2 != blk]
                    from .. import absreach as _ar
                    handled = bool(errs_) and all(not any(x in _ar.feasible_from(fb, [tgt], prog) for x in oks_ + later) for (s_, tgt) in errs_)
                chk.ob(rid, fn, "read_exact failure is mapped (truncation -> error)", handled, "a read error is ignored", where=fb.where(blk))
    for fn, blk in bad:
        chk.ob(rid, fn, "bare read in the blocking decoder", False, "a partial read would be taken for a complete field", where=prog.bodies[fn].where(blk))
    chk.floor("read_exact sites in the frame decoder", good, 2)


def frame_integrity(chk, prog, rid_fields="R6.frame_fields", rid_ahead="R6.no_read_ahead"):
    """(1) `length` and `payload` of a Frame are one fact: the encoder writes the header from `length` and the body from `payload`, so a Frame
    whose payload (or length) is changed after it was built — anywhere outside the decoder that fills it — serialises to a header that
    announces one size and a body of another.  (2) No reader on the frame path wraps the connection in a buffering reader that does not
    outlive the call: what it read ahead (the next frame, a continuation fragment, a Ping or Close) is dropped with it."""
    st = prog.structs.get("humphrey_ws::frame::Frame", {}).get("fields", [])
    frozen = {i: x["name"] for i, x in enumerate(st) if x["name"] in ("payload", "length")}
    chk.floor("Frame.payload / Frame.length fields", len(frozen), 2)
    n_bodies = 0
    for p, b in sorted(prog.bodies.items()):
        if not (p.startswith("humphrey_ws::") or p.startswith("<humphrey_ws::")) or "promoted" in p:
            continue
        n_bodies += 1
        if p == DEC or p.startswith(DEC + "::"):
            continue        # the decoder fills the payload it has just allocated with the decoded length (read_exact, unmask)
        if p in set(getattr(prog, "new_functions", ())):
            continue        # a function that is new relative to the pinned tree is judged where the normalisation inlined it
        if p.startswith("humphrey_ws::frame::") and "{closure" not in p:
            # a helper of the decoder (`fn unmask(frame: &mut Frame)`): every caller is one of the decoder's entry points
            try:
                cs_ = prog.callers_of("^" + core.re.escape(p) + "$")
            except Exception:
                cs_ = []
            dec_fam = ("humphrey_ws::frame::Frame::from_stream_inner", "humphrey_ws::frame::Frame::from_stream", "humphrey_ws::frame::Frame::from_stream_nonblocking")
            if cs_ and all(any(cb_.path == f_ or cb_.path.startswith(f_ + "::") for f_ in dec_fam) for cb_, _b, _t in cs_):
                continue
        # only a frame that is serialised afterwards matters: taking the payload out of a *received* frame (`buf.append(&mut frame.payload)`)
        # changes nothing that is written.  Whole-local moves are followed (`let bytes: Vec<u8> = close.into()` moves the frame to a temporary).
        alias = {}
        def root(l):
            seen_ = set()
            while l in alias and l not in seen_:
                seen_.add(l)
                l = alias[l]
            return l
        for blk_ in b.blocks:
            for st_ in blk_["stmts"]:
                rv_ = st_.get("rv")
                if rv_ and "pl" in st_ and not st_["pl"]["p"] and rv_.get("k") == "use":
                    src_ = core.op_place(rv_["o"]) if hasattr(core, "op_place") else None
                    if src_ and not src_["p"]:
                        alias[st_["pl"]["l"]] = src_["l"]
        serialised = set()
        for blk_, t_ in b.calls():
            if t_.get("arg_tys") and t_["arg_tys"][0].endswith("frame::Frame") and core.call_matches(t_, r"::into$|::from$|send_raw$|to_bytes$"):
                l_ = core.op_local(t_["args"][0])
                if l_ is not None:
                    serialised.add(root(l_))
        for bi, blk in enumerate(b.blocks):
            if blk.get("cleanup"):
                continue
            for st_ in blk["stmts"]:
                if "pl" not in st_ or "rv" not in st_:
                    continue
                rv = st_["rv"]
                # a store into frame.payload / frame.length (also through a reference), or a `&mut frame.payload` handed to a mutating call
                for pl, how in ((st_["pl"], "assigned"), (rv.get("pl") if rv.get("k") in ("ref", "rawptr") and rv.get("mut", rv.get("k") == "rawptr") else None, "mutably borrowed")):
                    if not pl:
                        continue
                    ty = b.local_ty(pl["l"]) or ""
                    cur = ty
                    for e in pl["p"]:
                        if e[0] == "f":
                            base = cur.lstrip("&").replace("mut ", "", 1) if cur.startswith("&") else cur
                            by_ref = cur.startswith("&")
                            if base.endswith("frame::Frame") and e[1] in frozen and (by_ref or root(pl["l"]) in serialised):
                                # an aggregate assignment of the whole struct is not a projection; this is a write to one field
                                chk.ob(rid_fields, p, f"Frame.{frozen[e[1]]} is not changed after the frame was built", False,
                                       f"field `{frozen[e[1]]}` of a Frame is {how} outside the decoder: `length` (header) and `payload` (body) of the serialised frame can disagree",
                                       where=b.where(bi))
                            cur = e[2]
                        elif e[0] == "d":
                            cur = cur.lstrip("&")
                            if cur.startswith("mut "):
                                cur = cur[4:]
    chk.ob(rid_fields, "humphrey_ws", "bodies scanned for writes to Frame.payload / Frame.length", n_bodies >= 10, f"{n_bodies} bodies")
    # (2) read-ahead
    roots = ["humphrey_ws::frame::Frame::from_stream", "humphrey_ws::frame::Frame::from_stream_nonblocking", DEC,
             "humphrey_ws::message::Message::from_stream", "humphrey_ws::message::Message::from_stream_nonblocking",
             "humphrey_ws::stream::WebsocketStream::recv", "humphrey_ws::stream::WebsocketStream::recv_nonblocking"]
    have = [r for r in roots if r in prog.bodies]
    chk.floor("frame / message reader entry points", len(have), 5)
    reach = prog.reach_bodies(set(have))
    n_sites = 0
    for p in sorted(reach):
        pb = prog.bodies[p]
        if not (p.startswith("humphrey_ws::") or p.startswith("<humphrey_ws::")):
            continue
        n_sites += 1
        for blk, t in pb.calls_to(r"(BufReader::<R>::(new|with_capacity)|LineWriter::<W>::new|io::Read::take|io::Read::chain)$"):
            if not core.re.search(r"BufReader", t["callee"]):
                continue
            escapes = "BufReader" in (pb.local_ty(0) or "")
            chk.ob(rid_ahead, p, "no buffering reader around the connection that is dropped when the call returns", escapes,
                   "a BufReader is wrapped around the stream for one call and dropped at return: bytes of the following frame that it read ahead are lost "
                   "(two frames delivered in one segment: the second never arrives)", where=pb.where(blk))
    # a bare read() on the frame path (the non-blocking probe) asks for no more than the two fixed header bytes: whatever else it got would
    # have to be handed on, and the part of it that lies beyond the end of a short frame belongs to the next frame
    for p in sorted(reach):
        pb = prog.bodies[p]
        if not (p.startswith("humphrey_ws::frame::") or p.startswith("<humphrey_ws::frame::")):
            continue
        for blk, t in pb.calls_to(r"(^|::)std::io::Read::read$|<[^>]* as std::io::Read>::read$"):
            if len(t["args"]) < 2:
                continue
            d = describe(prog, pb, t["args"][1])
            if not [x for x in core.desc_subterms(d) if isinstance(x, tuple) and x and x[0] == "repeat"] and "{closure" in p:
                try:
                    d = core.resolve_upvars(prog, pb, d)      # the buffer is captured by a closure (`with_nonblocking(stream, |s| s.read(&mut buf))`)
                except Exception:
                    pass
            lens = [x[2] for x in core.desc_subterms(d) if isinstance(x, tuple) and x and x[0] == "repeat"]
            whole = d[0] == "repeat"
            ok = whole and str(d[2]) == "2"
            if not whole and len(lens) == 1 and not [c for c in core.desc_calls(d) if core.re.search(r"index(_mut)?$", c[1])]:
                whole = True        # the whole array behind reference wrappers (a captured `&mut buf`)
                ok = str(lens[0]) == "2"
            if not whole:
                # a sub-slice of the header buffer (`&mut buf[got..]`) of the 2-byte array is within the header as well
                ok = bool(lens) and all(str(l_) == "2" for l_ in lens)
            chk.ob(rid_ahead, p, "a bare read() asks for at most the 2 fixed header bytes", ok,
                   f"read() into a buffer of {lens or '?'} bytes: bytes beyond the current frame are taken off the socket with it and do not reach the next receive "
                   "(a burst of short frames loses messages / desynchronises the stream)", where=pb.where(blk))
    chk.ob(rid_ahead, "humphrey_ws", "reader bodies scanned for a dropped read-ahead buffer", n_sites >= 5, f"{n_sites} bodies")


def decoder_outcomes(chk, prog, rid="R7.decoder_outcomes"):
    """The decoder returns the frame it parsed, or fails for one of two reasons: a read failed (ReadError) or the opcode is reserved
    (InvalidOpcode).  (a) every Frame it returns is the aggregate built from the parsed header fields — no constructor that fills in
    defaults (Frame::new sets FIN and clears RSV); (b) no other error is produced: the payload is opaque at this layer."""
    fns = [DEC, "humphrey_ws::frame::Frame::from_stream", "humphrey_ws::frame::Frame::from_stream_nonblocking"]
    seen_agg = 0
    for fn in fns:
        bodies = [prog.bodies[fn]] + prog.all_closures_of(fn) if fn in prog.bodies else []
        for b in bodies:
            for bi, blk in enumerate(b.blocks):
                if blk.get("cleanup"):
                    continue
                for s in blk["stmts"]:
                    rv = s.get("rv")
                    if rv and rv.get("k") == "agg" and rv.get("adt", "").endswith("frame::Frame"):
                        seen_agg += 1
                    if rv and rv.get("k") == "agg" and rv.get("adt", "").endswith("error::WebsocketError"):
                        v = rv.get("variant")
                        chk.ob(rid, b.path, f"the decoder's errors are ReadError / InvalidOpcode only [{v}]", v in ("ReadError", "InvalidOpcode"),
                               f"the frame decoder fails with {v}: a well-formed frame (any payload bytes under any opcode) is refused", where=b.where(bi))
                t = blk["term"]
                if t and t["k"] == "call":
                    dty = b.local_ty(t["dest"]["l"]) if t.get("dest") and not t["dest"]["p"] else ""
                    if (dty or "").endswith("frame::Frame") and not core.call_matches(t, r"(Clone>?::clone|from_stream_inner|from_stream)$"):
                        chk.ob(rid, b.path, "a decoded Frame is built from the parsed header fields", False,
                               f"the decoder returns a Frame made by {t['callee']}: fields it does not take (FIN, RSV, mask, key) are defaults, not what was on the wire",
                               where=b.where(bi))
    chk.floor("Frame aggregates built by the decoder", seen_agg, 1)


def run(chk):
    prog = chk.use(core.load("A", fresh=(chk.tier == "thorough")))
    chk.explanation = (
        "Static decision of C10's structural clauses: the opcode table (TryFrom<u8>, #[repr(u8)] discriminants) equals RFC 6455 §11.8 and rejects everything else; "
        "the decoder's header masks (FIN 0x80, RSV 0x40/0x20/0x10, opcode 0x0F on byte 0; MASK 0x80, length 0x7F on byte 1) pair with the encoder's shifts "
        "(7,6,5,4 / 7); length-form thresholds: encoder < 126 -> 7-bit, < 65536 -> 126 + u16 BE, else 127 + u64 BE (shortest form), decoder == 126 -> 2 bytes "
        "u16 BE, == 127 -> 8 bytes u64 BE; the decoders read only with read_exact mapped to ReadError (truncation -> error); the masking key is applied "
        "as key[i % 4]; Message::to_frame picks Text/Binary by the text flag.")
    chk.not_decided = "the round trip itself for every payload; that read_exact delivers the bytes in order (std contract)"
    chk.assumptions = ["rustc type checking / MIR construction / callee resolution"]
    # ---- R1 opcode table
    en = prog.enums.get("humphrey_ws::frame::Opcode")
    chk.floor("Opcode enum", 1 if en else 0, 1)
    if en:
        got = {v["name"]: v["discr"] for v in en["variants"]}
        for n, c in OPCODES.items():
            chk.ob("R1.opcodes", "Opcode", f"{n} = 0x{c:X}", got.get(n) == c, f"discriminant of {n} is {got.get(n)}")
        chk.ob("R1.opcodes", "Opcode", "no other opcodes", set(got) == set(OPCODES), f"variants {sorted(got)}")
    tf = prog.impl_fn(r"^<humphrey_ws::frame::Opcode as std::convert::TryFrom<u8>>$", "try_from")
    chk.floor("TryFrom<u8> for Opcode", len(tf), 1)
    hir_ok = False
    if tf and tables.main_table(prog, tf[0]) is not None:
        m0 = tables.main_table(prog, tf[0])
        mp0, rest0, _ = tables.simple_map(m0, key_kinds=("lit",))
        hir_ok = bool(mp0) and all(tables.unwrap(v0, "Ok") for v0 in mp0.values())
    if tf and not hir_ok:
        # no `match byte { n => Ok(Variant), .. }` table in the source: decide the same table on the MIR
        tb = prog.bodies[tf[0]]
        from .. import byteset
        fl = byteset.ByteFlow(prog, tb, ("param", 1, tb.local_name(1)))
        got_map, err_mask, n_sites = {}, 0, 0
        for bi_, blk_ in enumerate(tb.blocks):
            for s_ in blk_["stmts"]:
                rv_ = s_.get("rv")
                if "pl" in s_ and s_["pl"]["l"] == 0 and not s_["pl"]["p"] and rv_ and rv_.get("k") == "agg" and rv_.get("adt", "").endswith("result::Result"):
                    n_sites += 1
                    m_ = fl.at_term.get(bi_, 0)
                    if rv_["variant"] == "Ok":
                        d_ = describe(prog, tb, rv_["ops"][0])
                        if d_[0] == "variant" and d_[1].endswith("frame::Opcode"):
                            for v_ in byteset.members(m_):
                                got_map.setdefault(v_, set()).add(d_[2])
                        elif d_[0] == "multi" and len(d_) > 4 and len(d_[1]) == len(d_[4]):
                            # `let op = match byte { 0 => Continuation, .. }; Ok(op)`: each alternative holds for the bytes that reach its assignment
                            for alt_, db_ in zip(d_[1], d_[4]):
                                nm_ = alt_[2] if alt_[0] == "variant" and alt_[1].endswith("frame::Opcode") else "?"
                                for v_ in byteset.members(fl.at_term.get(db_, 0) & m_):
                                    got_map.setdefault(v_, set()).add(nm_)
                        else:
                            for v_ in byteset.members(m_):
                                got_map.setdefault(v_, set()).add("?")
                    else:
                        err_mask |= m_
        if n_sites and any("?" in v_ for v_ in got_map.values()):
            n_sites = 0      # the Ok payload is not a variant chosen by branching on the byte: try the table-lookup form
        if n_sites:
            for n, c in OPCODES.items():
                chk.ob("R1.try_from", tf[0], f"0x{c:X} decodes to the variant with that discriminant", got_map.get(c) == {n}, f"byte 0x{c:X} decodes to {sorted(got_map.get(c, []))}")
            chk.ob("R1.try_from", tf[0], "exactly the six defined opcodes decode", sorted(got_map) == sorted(OPCODES.values()), f"accepted bytes {sorted(got_map)[:12]}")
            chk.ob("R1.try_from", tf[0], "reserved opcodes -> Err(InvalidOpcode)", err_mask == byteset.ALL & ~byteset.set_mask(OPCODES.values()) and
                   any("InvalidOpcode" in str(describe(prog, tb, s_["rv"]["ops"][0])) for blk_ in tb.blocks for s_ in blk_["stmts"]
                       if s_.get("rv") and s_["rv"].get("k") == "agg" and s_["rv"].get("variant") == "Err" and s_["rv"].get("ops")), f"error for {len(byteset.members(err_mask))} byte values")
        else:
            # table lookup: TABLE.iter().copied().find(|op| *op as u8 == byte).ok_or(InvalidOpcode) with TABLE the six variants —
            # returns the variant whose discriminant is the byte (the discriminants are checked above)
            d0 = describe(prog, tb, 0)
            ok_or = d0[0] == "call" and d0[1].endswith("Option::<T>::ok_or") and "InvalidOpcode" in str(d0[2][1])
            finds = [c for c in core.desc_calls(d0) if core.re.search(r"Iterator>?::find$", c[1])]
            if d0[0] == "multi" and len(d0[1]) == 2:
                # the same chain after `ok_or` was lowered to its match: Ok(<what find returned>) | Err(InvalidOpcode)
                oks_ = [a for a in d0[1] if a[0] == "variant" and a[2] == "Ok"]
                errs_ = [a for a in d0[1] if a[0] == "variant" and a[2] == "Err"]
                if len(oks_) == 1 and len(errs_) == 1:
                    pay = oks_[0][3][0] if oks_[0][3] else None
                    from_find = isinstance(pay, tuple) and pay[0] == "field" and pay[2] == 0 and isinstance(pay[1], tuple) and pay[1][0] == "call" and core.re.search(r"Iterator>?::find$", pay[1][1]) is not None
                    ok_or = from_find and "InvalidOpcode" in str(errs_[0])
                    finds = [pay[1]] if from_find else []
            tab_ok = clo_ok = False
            if finds:
                recv, cl = finds[0][2][0], finds[0][2][1]
                arrs = [y for y in core.desc_subterms(recv) if y[0] == "array"]
                names = sorted(x[2] for x in arrs[0][1] if x[0] == "variant") if arrs else []
                tab_ok = names == sorted(OPCODES) and not [c for c in core.desc_calls(recv) if core.re.search(r"::(rev|skip|take|step_by|filter)$", c[1])]
                if cl[0] == "closure" and cl[1] in prog.bodies:
                    cbody = prog.bodies[cl[1]]
                    r_ = describe(prog, cbody, 0)
                    if r_[0] == "bin" and r_[1] == "Eq":
                        sides = [r_[2], r_[3]]
                        dis = [x for x in sides if x[0] == "discr" and x[1][0] == "param"]
                        up = [x for x in sides if x[0] == "upvar"]
                        clo_ok = len(dis) == 1 and len(up) == 1 and up[0][1] < len(cl[2]) and cl[2][up[0][1]][0] == "param" and cl[2][up[0][1]][1] == 1
            for n, c in OPCODES.items():
                chk.ob("R1.try_from", tf[0], f"0x{c:X} decodes to the variant with that discriminant", ok_or and tab_ok and clo_ok,
                       f"lookup form: ok_or(InvalidOpcode)={ok_or} table of the six variants={tab_ok} predicate `variant as u8 == byte`={clo_ok}")
            chk.ob("R1.try_from", tf[0], "exactly the six defined opcodes decode", ok_or and tab_ok and clo_ok, "")
            chk.ob("R1.try_from", tf[0], "reserved opcodes -> Err(InvalidOpcode)", ok_or, "")
    elif tf:
        m = tables.main_table(prog, tf[0])
        mp, rest, dup = tables.simple_map(m, key_kinds=("lit",))
        for code, val in mp.items():
            inner = tables.unwrap(val, "Ok")
            v = tables.variant_name(inner[1]) if inner and inner[0] == "path" else None
            chk.ob("R1.try_from", tf[0], f"0x{code:X} decodes to the variant with that discriminant", v is not None and OPCODES.get(v) == code,
                   f"byte 0x{code:X} decodes to {v}")
        chk.ob("R1.try_from", tf[0], "exactly the six defined opcodes decode", sorted(mp) == sorted(OPCODES.values()), f"accepted bytes {sorted(mp)}")
        errs = [v for keys, g, v, line in rest if keys == [("rest",)]]
        ok = bool(errs) and errs[0][0] == "call" and tables.norm_path(errs[0][1]) == "Err" and "InvalidOpcode" in str(errs[0])
        chk.ob("R1.try_from", tf[0], "reserved opcodes -> Err(InvalidOpcode)", ok, f"catch-all yields {errs}")
    # ---- R2/R5 decoder header layout
    b = prog.bodies.get(DEC)
    chk.floor("Frame::from_stream_inner", 1 if b else 0, 1)
    dec_masks = {}
    if b:
        for blk in b.blocks:
            for s in blk["stmts"]:
                rv = s.get("rv")
                if rv and rv.get("k") == "agg" and rv.get("adt", "").endswith("frame::Frame"):
                    f = dict(zip(rv["fields"], [describe(prog, b, o) for o in rv["ops"]]))
                    dec_masks["fin"] = mask_of(f["fin"])
                    dec_masks["mask"] = mask_of(f["mask"])
                    dec_masks["opcode"] = mask_of(f["opcode"])
                    if f["rsv"][0] == "array":
                        for i, x in enumerate(f["rsv"][1]):
                            dec_masks[f"rsv{i}"] = mask_of(x)
                    ln = f["length"]
                    lm = [mask_of(x) for x in find(ln, lambda y: y[0] == "bin" and y[1] == "BitAnd")]
                    dec_masks["length"] = lm[0] if lm else None
                    # payload buffer sized by `length`; filled by read_exact
                    chk.ob("R2.decoder", DEC, "payload buffer has the decoded length", desc_contains(f["payload"], lambda y: y[0] == "call" and y[1].endswith("from_elem")), "")
        want = {"fin": (0, 0x80), "rsv0": (0, 0x40), "rsv1": (0, 0x20), "rsv2": (0, 0x10), "opcode": (0, 0x0F), "mask": (1, 0x80), "length": (1, 0x7F)}
        for k, w in want.items():
            chk.ob("R5.header_bits", DEC, f"{k} = header[{w[0]}] & 0x{w[1]:02X}", dec_masks.get(k) == w, f"decoder extracts {k} with {dec_masks.get(k)}")
        # the header bytes are looked at before the buffer is reused: the 16-bit length form reads the extended length into `header` itself,
        # so a field extracted from header[..] after that read is taken from the length bytes
        hl = next((i for i in range(1, b.argc + 1) if b.local_name(i) == "header" or "[u8; 2]" in (b.local_ty(i) or "")), None)
        if hl is not None:
            clobber = []
            for blk_, t_ in b.calls():
                for a_, ty_ in zip(t_["args"], t_.get("arg_tys") or []):
                    if ty_.startswith("&mut") and desc_contains(describe(prog, b, a_), lambda y: y[0] == "param" and y[1] == hl):
                        clobber.append(blk_)
            def reads_header(x):
                if isinstance(x, dict):
                    if x.get("l") == hl and isinstance(x.get("p"), list) and any(e and e[0] in ("i", "ci") for e in x["p"]):
                        return True
                    return any(reads_header(v) for k_, v in x.items() if k_ != "dest")
                if isinstance(x, list):
                    return any(reads_header(v) for v in x)
                return False
            late = []
            for cb_ in clobber:
                after = b.reachable(b.succs(cb_))
                for bi_ in sorted(after):
                    blk_ = b.blocks[bi_]
                    if blk_.get("cleanup"):
                        continue
                    if any(reads_header(st_.get("rv")) for st_ in blk_["stmts"] if "rv" in st_) or (blk_["term"] and blk_["term"]["k"] == "switch" and reads_header(blk_["term"].get("discr"))):
                        late.append(bi_)
            chk.ob("R5.header_bits", DEC, "no header field is extracted after the header buffer was reused for the extended length", not late,
                   "header[..] is read after read_exact(&mut header): for 16-bit-length frames the field is taken from the length bytes (RSV bits lost / spurious)",
                   where=b.where(late[0]) if late else "")
            chk.extra["header_buffer_reuse_sites"] = len(clobber)
        # extended lengths
        facts = {}
        for blk, t in b.calls_to(r"num::<impl u(16|64)>::from_be_bytes$|from_le_bytes$|from_ne_bytes$"):
            gs = core.guards_dominating(prog, b, blk)
            conds = [(lab, d) for s, lab, d, info in gs if d[0] == "bin" and d[1] in ("Eq", "Ne")]
            marker = None
            for lab, d in conds:
                c = d[3] if d[3][0] == "lit" else d[2]
                if c[0] == "lit" and ((d[1] == "Eq" and lab == "true") or (d[1] == "Ne" and lab == "false")):
                    marker = c[1]
            # `match header[1] & 0x7F { 126 => .., 127 => .. }`: an integer switch edge
            for s_, lab, d, info in gs:
                if info and info.get("kind") == "int" and isinstance(lab, int) and desc_contains(d, lambda y: y[0] == "bin" and y[1] == "BitAnd"):
                    marker = lab
            ty = t["callee"].split("impl ")[1].split(">")[0]
            endian = t["callee"].rsplit("::", 1)[1]
            arr = (t.get("arg_tys") or [""])[0] or (b.local_ty(core.op_local(t["args"][0])) if core.op_local(t["args"][0]) is not None else "")
            facts[marker] = (ty, endian, arr)
        chk.ob("R2.decoder", DEC, "marker 126 -> u16::from_be_bytes of 2 bytes", facts.get(126, ("",))[0] == "u16" and facts[126][1] == "from_be_bytes" and "; 2]" in facts[126][2],
               f"marker 126 handled as {facts.get(126)}")
        chk.ob("R2.decoder", DEC, "marker 127 -> u64::from_be_bytes of 8 bytes", facts.get(127, ("",))[0] == "u64" and facts[127][1] == "from_be_bytes" and "; 8]" in facts[127][2],
               f"marker 127 handled as {facts.get(127)}")
        exact_reads(chk, prog, "R3.reads")
        decoder_outcomes(chk, prog)
        frame_integrity(chk, prog)
        # "decode under any split" holds for the non-blocking reader too: the count of its bare read() of the header is used (a header that
        # arrives 1 + 1 is completed, not parsed from a half-filled buffer) — C03's PARTIALREAD rule on that reader
        from . import c03 as _c03
        _bodies = panics.reach(prog, ["humphrey_ws::frame::Frame::from_stream_nonblocking"])
        _before = len(chk.obligations)
        _c03.partial_read_rule(chk, prog, "A", _bodies)
        for _o in chk.obligations[_before:]:
            _o["rule"] = "R3.partial_read"
        # unmasking: key[i % 4]
        # (closure passed to for_each, or a `for` loop in the decoder itself)
        cl = [c for c in [b] + prog.closures_of(DEC) if c is not None and any(blk["term"] and blk["term"]["k"] == "assert" and blk["term"]["akind"] == "rem_zero" for blk in c.blocks)]
        for c in cl:
            ok = False
            for blk in c.blocks:
                t = blk["term"]
                if t and t["k"] == "assert" and t["akind"] == "bounds":
                    d = [describe(prog, c, o) for o in t["ops"]]
                    if d[0] == ("lit", 4) and d[1][0] == "bin" and d[1][1] == "Rem":
                        per = panics._range_of(prog, c, d[1][3])
                        if per == (4, 4):
                            ok = True
            chk.ob("R2.unmask", c.path, "payload[i] ^= masking_key[i % 4]", ok, "the masking key is not applied with period 4")
        if not cl and b is not None:
            # zip form: payload.iter_mut().zip(masking_key.iter().cycle()) — the 4-byte key repeated in step with the payload
            zips = []
            for blk, t in b.calls_to(r"Iterator::zip$"):
                a0, a1 = describe(prog, b, t["args"][0]), describe(prog, b, t["args"][1])
                key_cycled = desc_contains(a1, lambda y: y[0] == "call" and y[1].endswith("Iterator::cycle")) and \
                    panics._array_len(b, next((c[2][0] for c in core.desc_calls(a1) if c[1].endswith("::iter") and c[2]), None)) == 4 and \
                    not [c for c in core.desc_calls(a1) if core.re.search(r"::(skip|rev|step_by|take)$", c[1])]
                over_payload = desc_contains(a0, lambda y: y[0] == "call" and y[1].endswith("iter_mut")) and not [c for c in core.desc_calls(a0) if core.re.search(r"::(skip|rev|step_by|take)$", c[1])]
                if key_cycled and over_payload:
                    zips.append(blk)
            xors = [(bi, s_) for bb_ in [b] + prog.all_closures_of(DEC) for bi, blk_ in enumerate(bb_.blocks) for s_ in blk_["stmts"]
                    if s_.get("rv") and s_["rv"].get("k") == "bin" and s_["rv"].get("op") == "BitXor" and s_["pl"]["p"]]
            xors += [(bi, t_) for bb_ in prog.all_closures_of(DEC) for bi, t_ in bb_.calls_to(r"BitXorAssign(<[^>]*>)?>?::bitxor_assign$")]
            # (`*byte ^= key_byte` with a `&u8` right-hand side is the BitXorAssign<&u8> impl, a call)
            xors += [(bi, t_) for bi, t_ in b.calls_to(r"BitXorAssign(<[^>]*>)?>?::bitxor_assign$")]
            cl = zips
            chk.ob("R2.unmask", DEC, "payload[i] ^= masking_key[i % 4]", bool(zips) and len(xors) == 1, f"zip(payload, cycle(masking_key)) sites: {len(zips)}, xor stores: {len(xors)}")
        chk.floor("unmask site (index form or zip/cycle form)", len(cl), 1)
    # ---- encoder
    enc = prog.impl_fn(r"^<std::vec::Vec<u8> as std::convert::From<humphrey_ws::frame::Frame>>$", "from")
    chk.floor("From<Frame> for Vec<u8>", len(enc), 1)
    if enc:
        e = prog.bodies[enc[0]]
        st = prog.structs["humphrey_ws::frame::Frame"]["fields"]
        li = next(i for i, x in enumerate(st) if x["name"] == "length")
        # ---- emission events: what is written at which position of the output, under which length class
        fi = {x["name"]: i for i, x in enumerate(st)}

        BIG = 1 << 64

        def _flow_intervals():
            """{block: (lo, hi)} — hull of the values f.length can have on entry to each block, by forward propagation of the comparisons of
            f.length with constants along the edges (an edge whose constraint leaves nothing is not taken): exact where a block is reached
            by several arms of a range `match`, which no single dominating comparison describes."""
            def constraint(d, truth):
                d = panics._strip(d)
                if not (isinstance(d, tuple) and d[0] == "bin" and d[1] in ("Lt", "Le", "Gt", "Ge", "Eq", "Ne")):
                    return None
                a_, b_ = panics._strip(d[2]), panics._strip(d[3])
                op = d[1]
                if isinstance(b_, tuple) and b_[0] == "field" and b_[2] == li and isinstance(a_, tuple) and a_[0] == "lit":
                    a_, b_ = b_, a_
                    op = {"Lt": "Gt", "Le": "Ge", "Gt": "Lt", "Ge": "Le"}.get(op, op)
                if not (isinstance(a_, tuple) and a_[0] == "field" and a_[2] == li and isinstance(b_, tuple) and b_[0] == "lit" and isinstance(b_[1], int)):
                    return None
                v = b_[1]
                if not truth:
                    op = {"Lt": "Ge", "Le": "Gt", "Gt": "Le", "Ge": "Lt", "Eq": "Ne", "Ne": "Eq"}[op]
                return {"Lt": (0, v - 1), "Le": (0, v), "Gt": (v + 1, BIG), "Ge": (v, BIG), "Eq": (v, v), "Ne": None}[op]
            state = {0: (0, BIG)}
            work = [0]
            n_ = 0
            while work and n_ < 5000:
                n_ += 1
                bi_ = work.pop()
                cur = state[bi_]
                t_ = e.term(bi_)
                outs = []
                if t_ and t_["k"] == "switch" and t_.get("discr_ty") == "bool":
                    info_ = core.switch_info(prog, e, bi_)
                    dd = describe(prog, e, t_["discr"])
                    for lab_ in ("true", "false"):
                        tgt_ = info_["edges"].get(lab_) if info_ else None
                        if tgt_ is None:
                            continue
                        c_ = constraint(dd, lab_ == "true")
                        nv = cur if c_ is None else (max(cur[0], c_[0]), min(cur[1], c_[1]))
                        if nv[0] <= nv[1]:
                            outs.append((tgt_, nv))
                elif t_ and t_["k"] == "switch" and panics._strip(describe(prog, e, t_["discr"]))[0:1] == ("field",) and panics._strip(describe(prog, e, t_["discr"]))[2] == li:
                    taken = []
                    for v_, tgt_ in t_["targets"]:
                        if cur[0] <= v_ <= cur[1]:
                            outs.append((tgt_, (v_, v_)))
                            taken.append(v_)
                    outs.append((t_["otherwise"], cur))
                else:
                    outs = [(sx, cur) for sx in e.succs(bi_)]
                for tgt_, nv in outs:
                    old_ = state.get(tgt_)
                    new_ = nv if old_ is None else (min(old_[0], nv[0]), max(old_[1], nv[1]))
                    if new_ != old_:
                        state[tgt_] = new_
                        work.append(tgt_)
            return state
        _flow = {}

        def length_interval(blk):
            """[lo, hi] allowed for f.length at blk by the dominating comparisons (hi None = unbounded)."""
            if not _flow:
                _flow.update(_flow_intervals())
            lo, hi = 0, None
            if blk in _flow:
                lo = max(lo, _flow[blk][0])
                hi = None if _flow[blk][1] >= BIG else _flow[blk][1]
            for (a_, op, r_) in panics.cmp_facts(prog, e, blk):
                for x, o_, y in ((a_, op, r_), (r_, {"<": ">", "<=": ">=", ">": "<", ">=": "<=", "==": "==", "!=": "!="}.get(op, op), a_)):
                    x = panics._strip(x)
                    if isinstance(x, tuple) and x[0] == "field" and x[2] == li and isinstance(y, tuple) and y[0] == "lit" and isinstance(y[1], int):
                        v = y[1]
                        if o_ == "<":
                            hi = v - 1 if hi is None else min(hi, v - 1)
                        elif o_ == "<=":
                            hi = v if hi is None else min(hi, v)
                        elif o_ == ">":
                            lo = max(lo, v + 1)
                        elif o_ == ">=":
                            lo = max(lo, v)
            return (lo, hi)
        events = []
        for blk, t in e.calls_to(r"Vec::<T, A>::push$"):
            events.append((blk, "push", describe(prog, e, t["args"][1]), t["args"][1]))
        for blk, t in e.calls_to(r"Vec::<T, A>::extend_from_slice$|Extend<.*>>::extend$"):
            events.append((blk, "extend", describe(prog, e, t["args"][1]), t["args"][1]))
        stores = {}
        store_stmt = {}
        for blk_i, blk in enumerate(e.blocks):
            for s_ in blk["stmts"]:
                if "pl" in s_ and s_["pl"]["p"] and s_["pl"]["p"][0][0] == "d" and s_["rv"]["k"] in ("bin", "use"):
                    ptr = s_["pl"]["l"]
                    idx = None
                    for d_ in e.defs().get(ptr, []):
                        if d_[2] == "call" and "index_mut" in (d_[3].get("callee") or ""):
                            iv = describe(prog, e, d_[3]["args"][1])
                            idx = iv[1] if iv[0] == "lit" else None
                    if idx is not None:
                        stores.setdefault(idx, []).append((blk_i, core.describe_rv(prog, e, s_["rv"])))
                        store_stmt[(blk_i, idx)] = s_
        inits = [describe(prog, e, t["args"][1]) for blk, t in e.calls_to(r"vec::from_elem$")]

        def position(blk):
            """Number of single-byte pushes that precede this event on every path, if nothing of variable size precedes it."""
            before = [ev for ev in events if ev[0] != blk and e.dominates(ev[0], blk)]
            if any(ev[1] == "extend" for ev in before):
                return None
            return len(before)
        byte = {0: [], 1: []}
        for idx in (0, 1):
            for blk_i, d in stores.get(idx, []):
                byte[idx].append((blk_i, d))
        base = 2 if inits == [("lit", 2)] else (0 if not inits else None)
        # `vec![first, ..]`: the elements written into the fresh box before it becomes the Vec are bytes 0.. ; pushes continue after them
        init_ops = []
        if base == 0 and e.calls_to(r"box_assume_init_into_vec_unsafe$|slice::<impl \[T\]>::into_vec$"):
            for bi_, blk_ in enumerate(e.blocks):
                for st_ in blk_["stmts"]:
                    rv_ = st_.get("rv")
                    if rv_ and rv_.get("k") == "agg" and rv_.get("agg") == "array" and rv_.get("ty") == "u8" and "pl" in st_ and (st_.get("exp") == "vec" or st_["pl"]["p"]):
                        init_ops = [(bi_, o_) for o_ in rv_["ops"]]
        if base == 0:
            for i_, (bi_, o_) in enumerate(init_ops[:2]):
                byte[i_].append((bi_, describe(prog, e, o_)))
            for blk, kind, d, op_ in events:
                if kind == "push" and position(blk) is not None and position(blk) + len(init_ops) in (0, 1):
                    byte[position(blk) + len(init_ops)].append((blk, d))
        chk.ob("R5.header_bits", enc[0], "the two header bytes are written first (indexed stores into vec![0; 2], or the first two pushes)", base is not None and len(byte[0]) == 1 and len(byte[1]) >= 1,
               f"initial buffer {inits}; byte 0 written at {len(byte[0])} site(s), byte 1 at {len(byte[1])}")

        from .. import bits as _bits

        def bit_names(blk, operand):
            """Names of the 8 bit sources of a header byte: 0/1, ('fin',0), ('rsv',k,0), ('opcode',i), ('mask',0), ('length',i), or None."""
            lo, hi = length_interval(blk)

            def ub(d):
                d_ = panics._strip(d)
                if isinstance(d_, tuple) and d_[0] == "field" and d_[2] == li and hi is not None:
                    return hi
                return None
            be_ = _bits.BitEval(prog, e, upper_bound=ub)
            v = be_.operand(operand, 8)
            if v is None:
                return None
            out = []
            for s_ in (v + [0] * 8)[:8]:
                if s_ in (0, 1) or s_ is None:
                    out.append(s_)
                    continue
                d_ = panics._strip(be_.keys.get(s_[1]))
                nm = None
                if isinstance(d_, tuple) and d_[0] == "field" and isinstance(d_[2], int):
                    nm = next((k for k, v_ in fi.items() if v_ == d_[2]), None)
                    out.append((nm, s_[3]))
                elif isinstance(d_, tuple) and d_[0] == "index" and isinstance(d_[1], tuple) and panics._strip(d_[1])[0] == "field":
                    base = panics._strip(d_[1])
                    nm = next((k for k, v_ in fi.items() if v_ == base[2]), None)
                    out.append((nm, d_[2][1] if isinstance(d_[2], tuple) and d_[2][0] == "lit" else None, s_[3]))
                else:
                    out.append(("?", core.short(str(d_))[:40]))
            return out
        ops_by_blk = {}
        for blk_i, blk in enumerate(e.blocks):
            for s_ in blk["stmts"]:
                if "pl" in s_ and s_["pl"]["p"] and s_["pl"]["p"][0][0] == "d" and s_["rv"]["k"] in ("bin", "use"):
                    ops_by_blk.setdefault(blk_i, []).append(s_)
        ev_op = {ev[0]: ev[3] for ev in events if ev[1] == "push"}

        def byte_bits(blk, idx):
            for i_, (bi_, o_) in enumerate(init_ops):
                if bi_ == blk and i_ == idx and base == 0:
                    return bit_names(blk, o_)
            if blk in ev_op and base == 0:
                return bit_names(blk, ev_op[blk])
            for s_ in ([store_stmt[(blk, idx)]] if (blk, idx) in store_stmt else []):
                # evaluate the stored rvalue through a temporary: the statement's own rvalue
                be_tmp = None
                lo, hi = length_interval(blk)

                def ub(d):
                    d_ = panics._strip(d)
                    if isinstance(d_, tuple) and d_[0] == "field" and d_[2] == li and hi is not None:
                        return hi
                    return None
                be_ = _bits.BitEval(prog, e, upper_bound=ub)
                v = be_.rvalue(s_["rv"], 8)
                if v is None:
                    continue
                outb = []
                for x in (v + [0] * 8)[:8]:
                    if x in (0, 1) or x is None:
                        outb.append(x)
                        continue
                    d_ = panics._strip(be_.keys.get(x[1]))
                    if isinstance(d_, tuple) and d_[0] == "field" and isinstance(d_[2], int):
                        outb.append((next((k for k, v_ in fi.items() if v_ == d_[2]), None), x[3]))
                    elif isinstance(d_, tuple) and d_[0] == "index" and isinstance(d_[1], tuple) and panics._strip(d_[1])[0] == "field":
                        b0 = panics._strip(d_[1])
                        outb.append((next((k for k, v_ in fi.items() if v_ == b0[2]), None), d_[2][1] if isinstance(d_[2], tuple) and d_[2][0] == "lit" else None, x[3]))
                    else:
                        outb.append(("?", core.short(str(d_))[:40]))
                return outb
            return None
        want0 = [("opcode", 0), ("opcode", 1), ("opcode", 2), ("opcode", 3), ("rsv", 2, 0), ("rsv", 1, 0), ("rsv", 0, 0), ("fin", 0)]
        for blk, d in byte[0]:
            got = byte_bits(blk, 0)
            chk.ob("R5.header_bits", enc[0], "byte 0 is fin<<7 | rsv0<<6 | rsv1<<5 | rsv2<<4 | opcode", got == want0, f"byte 0 bits (lsb first) = {got}", where=e.where(blk))
        seen_classes = {}
        for blk, d in byte[1]:
            got = byte_bits(blk, 1)
            lo, hi = length_interval(blk)
            kind = None
            ok_mask = bool(got) and got[7] == ("mask", 0)
            low = got[:7] if got else None
            if low == [("length", i) for i in range(7)]:
                kind, ok_cls = "7-bit length", (lo, hi) == (0, 125)
            elif low == [(126 >> i) & 1 for i in range(7)]:
                kind, ok_cls = "marker 126", (lo, hi) == (126, 65535)
            elif low == [(127 >> i) & 1 for i in range(7)]:
                kind, ok_cls = "marker 127", (lo, hi) == (65536, None)
            else:
                ok_cls = False
            seen_classes[kind] = (lo, hi)
            chk.ob("R5.header_bits", enc[0], f"byte 1 is mask<<7 | {kind or 'length-or-marker'}", ok_mask and kind is not None, f"byte 1 bits (lsb first) = {got}", where=e.where(blk))
            chk.ob("R2.encoder", enc[0], f"{kind or 'byte 1 form'} is used exactly on its length range (shortest form)", ok_cls, f"used for lengths {lo}..{hi if hi is not None else 'max'}", where=e.where(blk))
        chk.ob("R2.encoder", enc[0], "the three length forms (7-bit, marker 126, marker 127) are all present", set(seen_classes) == {"7-bit length", "marker 126", "marker 127"}, f"{sorted(str(k) for k in seen_classes)}")
        # extended length bytes
        be = [(blk, t) for blk, t in e.calls_to(r"num::<impl u(16|64)>::to_(be|le|ne)_bytes$")]
        tys = sorted((t["callee"].split("impl ")[1].split(">")[0], t["callee"].rsplit("::", 1)[1]) for blk, t in be)
        chk.ob("R2.encoder", enc[0], "extended lengths are u16 / u64 big-endian", tys == [("u16", "to_be_bytes"), ("u64", "to_be_bytes")], f"{tys}")
        for blk, t in be:
            ty = t["callee"].split("impl ")[1].split(">")[0]
            lo, hi = length_interval(blk)
            want = (126, 65535) if ty == "u16" else (65536, None)
            src = describe(prog, e, t["args"][0])
            chk.ob("R2.encoder", enc[0], f"{ty} form is used exactly on its length range", (lo, hi) == want and desc_contains(src, lambda y: y[0] == "field" and y[2] == li),
                   f"{ty} bytes of {panics.short_desc(src)} are emitted for lengths {lo}..{hi if hi is not None else 'max'}", where=e.where(blk))
            emitted = [ev for ev in events if ev[1] == "extend" and desc_contains(ev[2], lambda y: y[0] == "call" and len(y) > 3 and y[3] == blk)]
            after_marker = any(e.dominates(b1, blk) for b1, _ in byte[1]) or bool(stores.get(1))
            chk.ob("R2.encoder", enc[0], f"the {ty} length bytes are appended right after the marker byte", len(emitted) == 1 and after_marker, f"{len(emitted)} extend site(s)", where=e.where(blk))
        # the masking key follows the header exactly when the MASK bit was set: its append is guarded by the `mask` field (the field the bit
        # is built from) and by nothing else — a test on the key's value drops an all-zero key from a frame that still says MASK=1
        fnames = [x["name"] for x in st]
        mi_, mk_ = fnames.index("mask"), fnames.index("masking_key")
        ksites = [ev for ev in events if desc_contains(ev[2], lambda y: y[0] == "field" and y[2] == mk_)]
        chk.floor("masking-key append in the encoder", len(ksites), 1)
        for ev in ksites:
            gs_ = [(lab, panics._strip(d_)) for s_, lab, d_, info in core.guards_dominating(prog, e, ev[0]) if isinstance(d_, tuple)]
            on_mask = [lab for lab, d_ in gs_ if d_[0] == "field" and d_[2] == mi_ and d_[1][0] == "param"]
            on_key = [lab for lab, d_ in gs_ if desc_contains(d_, lambda y: y[0] == "field" and y[2] == mk_)]
            chk.ob("R2.encoder", enc[0], "the masking key is appended exactly when the frame's mask flag is set", on_mask == ["true"] and not on_key,
                   f"the key append is guarded by mask == {on_mask} and by {len(on_key)} test(s) of the key itself", where=e.where(ev[0]))
    # ---- R4 Message::to_frame
    tfm = prog.bodies.get("humphrey_ws::message::Message::to_frame")
    chk.floor("Message::to_frame", 1 if tfm else 0, 1)
    if tfm:
        ti = next(i for i, x in enumerate(prog.structs["humphrey_ws::message::Message"]["fields"]) if x["name"] == "text")
        for blk, t in tfm.calls_to(r"frame::Frame::new$"):
            # (opcode variant, block where it is chosen): the argument itself, or the arms that assign the local it is copied from
            leaves = []
            l = core.op_local(t["args"][0])
            seen_l = set()
            while l is not None and l not in seen_l:
                seen_l.add(l)
                ds_ = tfm.defs().get(l, [])
                if len(ds_) == 1 and ds_[0][2] == "assign" and ds_[0][3]["rv"]["k"] == "use" and core.op_local(ds_[0][3]["rv"]["o"]) is not None and not ds_[0][3]["rv"]["o"]["pl"]["p"]:
                    l = core.op_local(ds_[0][3]["rv"]["o"])
                    continue
                if len(ds_) > 1:
                    for d_ in ds_:
                        if d_[2] == "assign" and d_[3]["rv"]["k"] == "agg" and d_[3]["rv"].get("variant"):
                            leaves.append((d_[0], d_[3]["rv"]["variant"]))
                break
            if not leaves:
                op = describe(prog, tfm, t["args"][0])
                leaves = [(blk, op[2] if op[0] == "variant" else None)]
            for lb, vname in leaves:
                val = []
                for (a_, o_, b_) in panics.cmp_facts(prog, tfm, lb):
                    if o_ == "==" and a_[0] == "field" and a_[2] == ti and b_[0] == "lit":
                        val.append(b_[1])
                # `match self.text { true => .., false => .. }` is a switch on the field itself
                for s_, lab, dd, info in core.guards_dominating(prog, tfm, lb):
                    dd_ = panics._strip(dd)
                    if lab in ("true", "false") and isinstance(dd_, tuple) and dd_[0] == "field" and dd_[2] == ti and (lab == "true") not in val:
                        val.append(lab == "true")
                want = {"Text": [True], "Binary": [False]}.get(vname)
                chk.ob("R4.to_frame", tfm.path, f"Opcode::{vname or '?'} is chosen when text == {want[0] if want else '?'}", val == want,
                       f"built when text == {val}", where=tfm.where(lb))
            pl = describe(prog, tfm, t["args"][1])
            pi = next(i for i, x in enumerate(prog.structs["humphrey_ws::message::Message"]["fields"]) if x["name"] == "payload")
            chk.ob("R4.to_frame", tfm.path, "frame payload is the message payload", desc_contains(pl, lambda y: y[0] == "field" and y[2] == pi), "")
        d0 = describe(prog, tfm, 0)
        chk.ob("R4.to_frame", tfm.path, "returns the serialised frame (Vec<u8>::from(Frame))", desc_contains(d0, lambda y: y[0] == "call" and (y[1].endswith("::into") or core.re.search(r"From<humphrey_ws::frame::Frame>( for std::vec::Vec<u8>)?>::from$|convert::From::from$", y[1]) is not None) and
                             desc_contains(y[2], lambda z: z[0] == "call" and z[1].endswith("frame::Frame::new"))), f"{panics.short_desc(d0)}")
    fn = prog.bodies.get("humphrey_ws::frame::Frame::new")
    if fn:
        for blk in fn.blocks:
            for s in blk["stmts"]:
                rv = s.get("rv")
                if rv and rv.get("k") == "agg" and rv.get("adt", "").endswith("frame::Frame"):
                    f = dict(zip(rv["fields"], [describe(prog, fn, o) for o in rv["ops"]]))
                    chk.ob("R4.frame_new", fn.path, "length = payload.len()", desc_contains(f["length"], lambda y: y[0] == "call" and y[1].endswith("::len")), f"{f['length']}")
                    chk.ob("R4.frame_new", fn.path, "server frames are unmasked, FIN set", f["mask"] == ("lit", False) and f["fin"] == ("lit", True), f"mask={f['mask']} fin={f['fin']}")

"""C14 — typed JSON mapping and the json! macro preserve every value (structural clauses)."""
import re

from .. import core, macros, tables
from . import c14_corpus

MUNCHERS = ("humphrey_json::json_array_internal", "humphrey_json::json_object_internal")


def macro_rules(chk, prog):
    names = ["humphrey_json::json", "humphrey_json::json_array_internal", "humphrey_json::json_object_internal", "humphrey_json::json_map",
             "humphrey_json::impl_into_json_for_number", "humphrey_json::impl_from_json_for_number"]
    found = [n for n in names if n in prog.macros]
    chk.floor("macro_rules! definitions", len(found), 3)
    total = 0
    for n in found:
        m = prog.macros[n]
        for k, (mt, tr) in enumerate(macros.arms(m["tts"])):
            total += 1
            bound = macros.bound_vars(mt)
            used = macros.used_vars(tr)
            label = macros.render(mt, 70)
            for v, (frag, depth) in sorted(bound.items()):
                ok = v in used and depth in used[v]
                chk.ob("R1.metavars", n, f"arm `{label}`: ${v} is transcribed at depth {depth}", ok,
                       (f"${v}:{frag} is bound by the matcher but never used in the expansion: the caller's tokens matched by it are silently discarded"
                        if v not in used else f"${v} is bound at repetition depth {depth} but used at {sorted(used[v])}"), where=f"{m['file']}:{m['line']}")
    chk.floor("macro arms", total, 12)
    # sibling munchers offer the same next-element forms
    forms = {}
    for n in MUNCHERS:
        if n not in prog.macros:
            continue
        fs = set()
        for mt, tr in macros.arms(prog.macros[n]["tts"]):
            sh = macros.shape(mt)
            rest = sh[1:]     # after the accumulator
            # drop the object key prefix `$tt :`
            if rest[:2] == ["$tt", ":"]:
                rest = rest[2:]
            fs.add(" ".join(rest))
            # order preservation: the accumulator is re-emitted first, the new element after it
            inv = [t for t in tr if isinstance(t, dict)]
            if rest and inv:
                inner = inv[-1]["tts"]
                if inner and isinstance(inner[0], dict) and inner[0]["d"] == "[":
                    acc = inner[0]["tts"]
                    # (the accumulator is whatever metavariable the matcher binds inside its leading `[ $( $x:expr, )* ]` group)
                    acc_name = None
                    if mt and isinstance(mt[0], dict) and mt[0].get("d") == "[":
                        bound = macros.used_vars(mt[0]["tts"], 0) if hasattr(macros, "used_vars") else {}
                        names_ = [k_ for k_ in bound] if isinstance(bound, dict) else list(bound)
                        acc_name = names_[0] if len(names_) == 1 else None
                    first_is_acc = len(acc) >= 2 and acc[0] == "$" and isinstance(acc[1], dict) and (acc_name or "elems") in macros.used_vars(acc[1]["tts"], 1)
                    chk.ob("R1.order", n, f"arm `{macros.render(mt, 60)}`: the accumulated elements come first, the new one is appended", first_is_acc,
                           "the new element is placed before the elements already collected: the array/object is built in reverse order")
        forms[n] = fs
    if len(forms) == 2:
        a, o = forms[MUNCHERS[0]], forms[MUNCHERS[1]]
        for f in sorted(a | o):
            chk.ob("R1.siblings", "json_array_internal vs json_object_internal", f"next-element form `{f or '<end>'}`", (f in a) == (f in o),
                   f"array muncher has it: {f in a}; object muncher has it: {f in o}")
    # number impls: same type list on both sides
    into_t, from_t = set(), set()
    for p, f in prog.fns.items():
        tr = f.get("impl_trait_ref") or ""
        m1 = re.match(r"^<([iuf](?:8|16|32|64|128|size)) as humphrey_json::traits::IntoJson>$", tr)
        m2 = re.match(r"^<([iuf](?:8|16|32|64|128|size)) as humphrey_json::traits::FromJson>$", tr)
        if m1:
            into_t.add(m1.group(1))
        if m2:
            from_t.add(m2.group(1))
    chk.floor("numeric IntoJson impls", len(into_t), 14)
    chk.ob("R1.number_impls", "humphrey_json::traits", "IntoJson and FromJson are implemented for the same numeric types", into_t == from_t,
           f"only IntoJson: {sorted(into_t - from_t)}; only FromJson: {sorted(from_t - into_t)}")


def _returns(prog, b):
    """[(block, guard labels of the enum tests on the way, description of the value)] for every definition of the return place."""
    out = []
    for d in b.defs().get(0, []):
        blk = d[0]
        if d[2] == "call":
            val = ("call", d[3].get("resolved") or d[3].get("callee"), [core.describe(prog, b, a) for a in d[3]["args"]], blk)
        elif d[3]["pl"]["p"]:
            continue
        else:
            val = core.describe_rv(prog, b, d[3]["rv"]) if d[3]["rv"]["k"] != "use" else core.describe(prog, b, d[3]["rv"]["o"])
        labs = [(lab, dd) for s_, lab, dd, info in core.guards_dominating(prog, b, blk)]
        out.append((blk, labs, val))
    return out


def _is_variant(d, name):
    return isinstance(d, tuple) and d and d[0] == "variant" and d[2] == name


def option_vec(chk, prog):
    """R3: Option <-> Null, Vec <-> Array in traits.rs (decided on the MIR: which value is returned under which variant test)."""
    dc = core.desc_contains
    # ---- Option -> JSON
    fs = prog.impl_fn(r"^<std::option::Option<T> as humphrey_json::traits::IntoJson>$", "to_json")
    chk.floor("IntoJson for Option<T>", len(fs), 1)
    for f in fs:
        b = prog.bodies[f]
        rs = _returns(prog, b)
        nulls = [(blk, labs) for blk, labs, v in rs if _is_variant(v, "Null")]
        convs = [(blk, labs, v) for blk, labs, v in rs if isinstance(v, tuple) and v[0] == "call" and str(v[1]).endswith("IntoJson::to_json")]
        other = [v for blk, labs, v in rs if not _is_variant(v, "Null") and not (isinstance(v, tuple) and v[0] == "call" and str(v[1]).endswith("IntoJson::to_json"))]
        chk.ob("R3.option", f, "None -> Value::Null", bool(nulls) and all(any(l == "None" for l, _ in labs) for blk, labs in nulls), f"Null returned under {[[l for l, _ in labs] for blk, labs in nulls]}")
        chk.ob("R3.option", f, "Some(v) -> v.to_json()", bool(convs) and all(any(l == "Some" for l, _ in labs) and dc(v[2][0], lambda y: y[0] == "param" and y[1] == 1) for blk, labs, v in convs) and not other,
               f"{[core.short(str(v))[:80] for blk, labs, v in convs]} other returns: {[core.short(str(v))[:60] for v in other]}")
    # ---- JSON -> Option
    fs = prog.impl_fn(r"^<std::option::Option<T> as humphrey_json::traits::FromJson>$", "from_json")
    chk.floor("FromJson for Option<T>", len(fs), 1)
    for f in fs:
        b = prog.bodies[f]
        rs = _returns(prog, b)
        none_ok = [(blk, labs) for blk, labs, v in rs if _is_variant(v, "Ok") and v[3] and _is_variant(v[3][0], "None")]
        chk.ob("R3.option", f, "Value::Null -> Ok(None)", bool(none_ok) and all(any(l == "Null" for l, _ in labs) for blk, labs in none_ok),
               f"Ok(None) returned under {[[l for l, _ in labs] for blk, labs in none_ok]}")
        rest = [(blk, labs, v) for blk, labs, v in rs if not (_is_variant(v, "Ok") and v[3] and _is_variant(v[3][0], "None"))]
        good = True
        for blk, labs, v in rest:
            from_conv = dc(v, lambda y: y[0] == "call" and str(y[1]).endswith("FromJson::from_json") and dc(y[2], lambda z: z[0] == "param" and z[2] == "value"))
            under_null = any(l == "Null" for l, _ in labs)
            wraps_some = (_is_variant(v, "Ok") and v[3] and _is_variant(v[3][0], "Some")) or dc(v, lambda y: y[0] == "call" and str(y[1]).endswith("::map")) or \
                (isinstance(v, tuple) and v[0] == "call" and str(v[1]).endswith("from_residual"))
            good = good and from_conv and not under_null and wraps_some
        chk.ob("R3.option", f, "any other value -> T::from_json(value) wrapped in Some (errors propagated)", bool(rest) and good, f"{[core.short(str(v))[:90] for blk, labs, v in rest]}")
    # ---- JSON -> Vec
    fs = prog.impl_fn(r"^<std::vec::Vec<T> as humphrey_json::traits::FromJson>$", "from_json")
    chk.floor("FromJson for Vec<T>", len(fs), 1)
    for f in fs:
        b = prog.bodies[f]
        fam = [b] + prog.all_closures_of(f)
        rs = _returns(prog, b)
        errs = [(blk, labs, v) for blk, labs, v in rs if _is_variant(v, "Err")]
        chk.ob("R3.vec", f, "non-array -> Err(TypeError)", bool(errs) and all(not any(l == "Array" for l, _ in labs) and dc(v, lambda y: _is_variant(y, "TypeError")) for blk, labs, v in errs),
               f"{[core.short(str(v))[:60] for blk, labs, v in errs]}")
        conv = [(bb, blk, t) for bb in fam for blk, t in bb.calls_to(r"FromJson::from_json$")]
        elementwise = False
        for bb, blk, t in conv:
            a = core.describe_r(prog, bb, t["args"][0])
            # the converted value is an element: the closure's own parameter, or the item produced by iterating the array payload
            if bb.kind == "closure" or dc(a, lambda y: y[0] == "call" and str(y[1]).endswith("::next")):
                elementwise = True
        from_payload = any(dc(core.describe(prog, b, t["args"][0]), lambda y: y[0] == "param" and y[2] == "value")
                           for blk, t in b.calls_to(r"<impl \[T\]>::iter$|IntoIterator>::into_iter$|IntoIterator::into_iter$|Deref>::deref$"))
        rev = [t["callee"] for bb in fam for blk, t in bb.calls_to(r"Iterator::rev$|::reverse$|::insert$|::push_front$")]
        chk.ob("R3.vec", f, "Value::Array(v) -> elementwise from_json in order", elementwise and from_payload and not rev,
               f"elementwise={elementwise} iterates the array payload={from_payload} reordering calls={rev}")
    # ---- Vec -> JSON
    fs = prog.impl_fn(r"^<std::vec::Vec<T> as humphrey_json::traits::IntoJson>$", "to_json")
    chk.floor("IntoJson for Vec<T>", len(fs), 1)
    for f in fs:
        b = prog.bodies[f]
        fam = [b] + prog.all_closures_of(f)
        rs = _returns(prog, b)
        arr = [v for blk, labs, v in rs if _is_variant(v, "Array")]
        conv = [(bb, blk, t) for bb in fam for blk, t in bb.calls_to(r"IntoJson::to_json$")]
        rev = [t["callee"] for bb in fam for blk, t in bb.calls_to(r"Iterator::rev$|::reverse$|::insert$|::push_front$")]
        chk.ob("R3.vec", f, "Vec -> Value::Array of the elements in order", len(arr) == len(rs) and bool(arr) and bool(conv) and not rev,
               f"returns {[core.short(str(v))[:60] for blk, labs, v in rs]}; conversions {len(conv)}; reordering {rev}")
    # every element, exactly once: between iter() and collect() only `map` (MIR, both directions)
    ADAPT = r"Iterator::(filter|filter_map|skip|take|skip_while|take_while|step_by|rev|flat_map|flatten|chain|zip|scan|inspect|dedup|peekable|cycle|fuse|map_while|enumerate|map)$"
    for rx_, meth in ((r"^<std::vec::Vec<T> as humphrey_json::traits::FromJson>$", "from_json"), (r"^<std::vec::Vec<T> as humphrey_json::traits::IntoJson>$", "to_json")):
        for fb_ in prog.impl_fn(rx_, meth):
            bb = prog.bodies[fb_]
            ad = [t["callee"].rsplit("::", 1)[-1] for blk, t in bb.calls_to(ADAPT)]
            chk.ob("R3.vec", fb_, "every element is converted exactly once: no dropping / reordering adaptor between iter() and collect()", ad in ([], ["map"]),
                   f"adaptors: {ad}: elements are dropped, repeated or reordered (e.g. filtering nulls shortens a Vec<Option<T>>)")
            for blk, t in bb.calls_to(r"Iterator::map$"):
                dd = core.describe(prog, bb, t["args"][1])
                cl = [y[1] for y in core.desc_nodes(dd) if y[0] == "closure"] if hasattr(core, "desc_nodes") else []
                ok_c = False
                for c in prog.closures_of(fb_):
                    if c.calls_to(r"(FromJson|IntoJson)::(from_json|to_json)$"):
                        ok_c = True
                chk.ob("R3.vec", fb_, f"the map closure calls {meth} on the element", ok_c, "")

NUMERIC = ["u8", "u16", "u32", "u64", "u128", "usize", "i8", "i16", "i32", "i64", "i128", "isize", "f32", "f64"]


def primitives(chk, prog):
    """R1: the primitive conversions are unconditional: a number is always Value::Number(self as f64), a bool Value::Bool, a string
    Value::String — on every path (a branch that maps some values elsewhere, e.g. non-finite floats to Null, breaks the round trip for
    exactly those values)."""
    n = 0
    for ty in NUMERIC + ["bool", "std::string::String", "&str"]:
        fs = [p for p in prog.bodies if p == f"<{ty} as humphrey_json::traits::IntoJson>::to_json"]
        if not fs:
            continue
        n += 1
        b = prog.bodies[fs[0]]
        d = core.describe(prog, b, 0)
        want = "Number" if ty in NUMERIC else ("Bool" if ty == "bool" else "String")
        ok = d[0] == "variant" and d[1].endswith("value::Value") and d[2] == want and core.desc_contains(d[3][0], lambda y: y[0] == "param" and y[1] == 1) and \
            not any(t["k"] == "switch" for t in (b.term(i) for i in range(len(b.blocks))) if t)
        chk.ob("R1.primitives", fs[0], f"{ty} -> Value::{want}(self) unconditionally", ok, f"to_json yields {core.short(str(d))[:120]}")
    chk.floor("primitive IntoJson impls", n, 10)


def _int_range(ty):
    m = re.match(r"^([iu])(8|16|32|64|128|size)$", ty)
    if not m:
        return None
    bits = 64 if m.group(2) == "size" else int(m.group(2))
    return (-(1 << (bits - 1)), (1 << (bits - 1)) - 1) if m.group(1) == "i" else (0, (1 << bits) - 1)


def number_casts(chk, prog):
    """R1: `FromJson for T` (T an integer type) converts the number to T itself: every float-to-integer cast in the impl targets T or a type
    whose range contains T's.  A detour through a narrower type — an integrality test written as `(n as i64) as f64 == n` in the impl for
    u64 / u128 / i128 — saturates outside that type, so values T can hold (and `IntoJson for T` writes) are refused or changed."""
    n = 0
    for ty in NUMERIC:
        want = _int_range(ty)
        if want is None:
            continue
        p = f"<{ty} as humphrey_json::traits::FromJson>::from_json"
        fam = [prog.bodies[q] for q in prog.bodies if q == p or q.startswith(p + "::{closure")]
        if not fam:
            continue
        n += 1
        bad = []
        for b in fam:
            for bi, blk in enumerate(b.blocks):
                for st in blk["stmts"]:
                    rv = st.get("rv")
                    if rv and rv.get("k") == "cast" and "FloatToInt" in str(rv.get("ck")):
                        got = _int_range(str(rv.get("ty")))
                        if got is None or got[0] > want[0] or got[1] < want[1]:
                            bad.append((rv.get("ty"), b.where(bi)))
        chk.ob("R1.number_casts", p, f"the number is converted to {ty} directly (no cast through a narrower integer type)", not bad,
               f"FromJson for {ty} casts the f64 to {sorted(set(x[0] for x in bad))}: the cast saturates outside that type, so part of {ty}'s range is refused or altered "
               f"(e.g. {ty}::MAX written by IntoJson does not read back)", where=bad[0][1] if bad else "")
    chk.floor("integer FromJson impls", n, 12)


def run(chk):
    prog = chk.use(core.load("A", fresh=(chk.tier == "thorough")))
    chk.explanation = (
        "Static decision of C14's structural clauses: R-MACRO over the token trees of json!, json_array_internal!, json_object_internal!, json_map! and the two "
        "number-impl macros (every metavariable bound by a matcher is transcribed at the same repetition depth; accumulators stay first; array and object "
        "munchers offer the same next-element forms; IntoJson/FromJson cover the same numeric types); Option<->Null and Vec<->Array tables; and an "
        "expansion corpus: a generated crate of derive / json_map! types and json! literals is compiled (never run) and, per type, the key map read by "
        "from_json is compared with the key map written by to_json and with the declared names, per literal the constructor tree of the expansion with "
        "the literal's token tree.")
    chk.not_decided = "numeric `as` casts (lossy by design above 2^53); programs outside the generated corpus; run-time equality of the round trip"
    chk.assumptions = ["rustc macro expansion / type checking", "the corpus generator's expected shapes (hv/props/c14_corpus.py) are derived from the literal it prints"]
    macro_rules(chk, prog)
    primitives(chk, prog)
    number_casts(chk, prog)
    option_vec(chk, prog)
    c14_corpus.support_helpers(prog)
    chk.extra["support_helpers"] = dict(c14_corpus.SUPPORT)
    c14_corpus.run(chk)

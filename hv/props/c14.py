"""C14 — typed JSON mapping and the json! macro preserve every value (structural clauses)."""
import re

from .. import core, macros, tables
from . import c14_corpus

MUNCHERS = ("humphrey_json::json_array_internal", "humphrey_json::json_object_internal")


def macro_rules(chk, prog):
    names = ["humphrey_json::json", "humphrey_json::json_array_internal", "humphrey_json::json_object_internal", "humphrey_json::json_map",
             "humphrey_json::impl_into_json_for_number", "humphrey_json::impl_from_json_for_number"]
    found = [n for n in names if n in prog.macros]
    chk.floor("macro_rules! definitions", len(found), 6)
    total = 0
    for n in found:
        m = prog.macros[n]
        for k, (mt, tr) in enumerate(macros.arms(m["tts"])):
            total += 1
            bound = macros.bound_vars(mt)
            used = macros.used_vars(tr)
            label = macros.render(mt, 70)
            for v, (frag, depth) in sorted(bound.items()):
                ok = v in used and depth in used[v]
                chk.ob("R1.metavars", n, f"arm `{label}`: ${v} is transcribed at depth {depth}", ok,
                       (f"${v}:{frag} is bound by the matcher but never used in the expansion: the caller's tokens matched by it are silently discarded"
                        if v not in used else f"${v} is bound at repetition depth {depth} but used at {sorted(used[v])}"), where=f"{m['file']}:{m['line']}")
    chk.floor("macro arms", total, 25)
    # sibling munchers offer the same next-element forms
    forms = {}
    for n in MUNCHERS:
        if n not in prog.macros:
            continue
        fs = set()
        for mt, tr in macros.arms(prog.macros[n]["tts"]):
            sh = macros.shape(mt)
            rest = sh[1:]     # after the accumulator
            # drop the object key prefix `$tt :`
            if rest[:2] == ["$tt", ":"]:
                rest = rest[2:]
            fs.add(" ".join(rest))
            # order preservation: the accumulator is re-emitted first, the new element after it
            inv = [t for t in tr if isinstance(t, dict)]
            if rest and inv:
                inner = inv[-1]["tts"]
                if inner and isinstance(inner[0], dict) and inner[0]["d"] == "[":
                    acc = inner[0]["tts"]
                    first_is_acc = len(acc) >= 2 and acc[0] == "$" and isinstance(acc[1], dict) and "elems" in macros.used_vars(acc[1]["tts"], 1)
                    chk.ob("R1.order", n, f"arm `{macros.render(mt, 60)}`: the accumulated elements come first, the new one is appended", first_is_acc,
                           "the new element is placed before the elements already collected: the array/object is built in reverse order")
        forms[n] = fs
    if len(forms) == 2:
        a, o = forms[MUNCHERS[0]], forms[MUNCHERS[1]]
        for f in sorted(a | o):
            chk.ob("R1.siblings", "json_array_internal vs json_object_internal", f"next-element form `{f or '<end>'}`", (f in a) == (f in o),
                   f"array muncher has it: {f in a}; object muncher has it: {f in o}")
    # number impls: same type list on both sides
    into_t, from_t = set(), set()
    for p, f in prog.fns.items():
        tr = f.get("impl_trait_ref") or ""
        m1 = re.match(r"^<([iuf](?:8|16|32|64|128|size)) as humphrey_json::traits::IntoJson>$", tr)
        m2 = re.match(r"^<([iuf](?:8|16|32|64|128|size)) as humphrey_json::traits::FromJson>$", tr)
        if m1:
            into_t.add(m1.group(1))
        if m2:
            from_t.add(m2.group(1))
    chk.floor("numeric IntoJson impls", len(into_t), 14)
    chk.ob("R1.number_impls", "humphrey_json::traits", "IntoJson and FromJson are implemented for the same numeric types", into_t == from_t,
           f"only IntoJson: {sorted(into_t - from_t)}; only FromJson: {sorted(from_t - into_t)}")


def option_vec(chk, prog):
    """R3: Option <-> Null, Vec <-> Array in traits.rs."""
    def table(trait_ref_rx, method):
        fs = prog.impl_fn(trait_ref_rx, method)
        if not fs:
            return None, None
        ms = tables.fn_tables(prog, fs[0])
        return fs[0], (ms[0] if ms else None)
    f, m = table(r"^<std::option::Option<T> as humphrey_json::traits::IntoJson>$", "to_json")
    chk.floor("IntoJson for Option<T>", 1 if m else 0, 1)
    if m:
        mp, rest, dup = tables.simple_map(m, key_kinds=("path",))
        none = mp.get("None")
        chk.ob("R3.option", f, "None -> Value::Null", none == ("path", "humphrey_json::value::Value::Null"), f"None serialises as {none}")
        some = [v for keys, g, v, line, arm in core.match_table(m) if keys and keys[0][0] == "ctor" and tables.norm_path(keys[0][1]) == "Some"]
        chk.ob("R3.option", f, "Some(v) -> v.to_json()", bool(some) and some[0][0] == "method" and str(some[0][1]).endswith("IntoJson::to_json"), f"{some}")
    f, m = table(r"^<std::option::Option<T> as humphrey_json::traits::FromJson>$", "from_json")
    chk.floor("FromJson for Option<T>", 1 if m else 0, 1)
    if m:
        mp, rest, dup = tables.simple_map(m, key_kinds=("path",))
        v = mp.get("humphrey_json::value::Value::Null")
        chk.ob("R3.option", f, "Value::Null -> None", v is not None and tables.unwrap(v, "Ok") == ("path", "None") or (v is not None and "None" in str(v)), f"{v}")
        other = [val for keys, g, val, line in rest if keys == [("rest",)]]
        chk.ob("R3.option", f, "any other value -> T::from_json(value).map(Some)", bool(other) and "from_json" in str(other[0]) and "Some" in str(other[0]), f"{other}")
    f, m = table(r"^<std::vec::Vec<T> as humphrey_json::traits::FromJson>$", "from_json")
    chk.floor("FromJson for Vec<T>", 1 if m else 0, 1)
    if m:
        rows = core.match_table(m)
        arr = [val for keys, g, val, line, arm in rows if keys and keys[0][0] == "ctor" and str(keys[0][1]).endswith("Value::Array")]
        chk.ob("R3.vec", f, "Value::Array(v) -> elementwise from_json in order", bool(arr) and "iter" in str(arr[0]) and "collect" in str(arr[0]) and "rev" not in str(arr[0]), f"{arr}")
        oth = [val for keys, g, val, line, arm in rows if keys == [("rest",)]]
        chk.ob("R3.vec", f, "non-array -> Err", bool(oth) and "Err" in str(oth[0]), f"{oth}")
    # every element, exactly once: between iter() and collect() only `map` (MIR, both directions)
    ADAPT = r"Iterator::(filter|filter_map|skip|take|skip_while|take_while|step_by|rev|flat_map|flatten|chain|zip|scan|inspect|dedup|peekable|cycle|fuse|map_while|enumerate|map)$"
    for rx_, meth in ((r"^<std::vec::Vec<T> as humphrey_json::traits::FromJson>$", "from_json"), (r"^<std::vec::Vec<T> as humphrey_json::traits::IntoJson>$", "to_json")):
        for fb_ in prog.impl_fn(rx_, meth):
            bb = prog.bodies[fb_]
            ad = [t["callee"].rsplit("::", 1)[-1] for blk, t in bb.calls_to(ADAPT)]
            chk.ob("R3.vec", fb_, "every element is converted exactly once: no dropping / reordering adaptor between iter() and collect()", ad in ([], ["map"]),
                   f"adaptors: {ad}: elements are dropped, repeated or reordered (e.g. filtering nulls shortens a Vec<Option<T>>)")
            for blk, t in bb.calls_to(r"Iterator::map$"):
                dd = core.describe(prog, bb, t["args"][1])
                cl = [y[1] for y in core.desc_nodes(dd) if y[0] == "closure"] if hasattr(core, "desc_nodes") else []
                ok_c = False
                for c in prog.closures_of(fb_):
                    if c.calls_to(r"(FromJson|IntoJson)::(from_json|to_json)$"):
                        ok_c = True
                chk.ob("R3.vec", fb_, f"the map closure calls {meth} on the element", ok_c, "")
    fs = prog.impl_fn(r"^<std::vec::Vec<T> as humphrey_json::traits::IntoJson>$", "to_json")
    chk.floor("IntoJson for Vec<T>", len(fs), 1)
    if fs:
        b = prog.bodies[fs[0]]
        d = core.describe(prog, b, 0)
        ok = d[0] == "variant" and d[2] == "Array" and core.desc_contains(d, lambda y: y[0] == "call" and y[1].endswith("::iter")) and not core.desc_contains(d, lambda y: y[0] == "call" and y[1].endswith("::rev"))
        chk.ob("R3.vec", fs[0], "Vec -> Value::Array of the elements in order", ok, f"{d[0]} {d[2] if len(d) > 2 else ''}")


def run(chk):
    prog = chk.use(core.load("A", fresh=(chk.tier == "thorough")))
    chk.explanation = (
        "Static decision of C14's structural clauses: R-MACRO over the token trees of json!, json_array_internal!, json_object_internal!, json_map! and the two "
        "number-impl macros (every metavariable bound by a matcher is transcribed at the same repetition depth; accumulators stay first; array and object "
        "munchers offer the same next-element forms; IntoJson/FromJson cover the same numeric types); Option<->Null and Vec<->Array tables; and an "
        "expansion corpus: a generated crate of derive / json_map! types and json! literals is compiled (never run) and, per type, the key map read by "
        "from_json is compared with the key map written by to_json and with the declared names, per literal the constructor tree of the expansion with "
        "the literal's token tree.")
    chk.not_decided = "numeric `as` casts (lossy by design above 2^53); programs outside the generated corpus; run-time equality of the round trip"
    chk.assumptions = ["rustc macro expansion / type checking", "the corpus generator's expected shapes (hv/props/c14_corpus.py) are derived from the literal it prints"]
    macro_rules(chk, prog)
    option_vec(chk, prog)
    c14_corpus.run(chk)

"""C04 — routing: first matching host, first matching route, else default, else 404 (structural clauses)."""
from .. import core
from ..core import describe, desc_contains, resolve_upvars
from .c01 import some_edge_of

REORDER = r"::(rev|rfind|rposition|last|max_by|max_by_key|min_by|min_by_key|max|min|fold|reduce|rfold|try_rfold|nth_back|next_back|sort|sort_by|sort_by_key|sort_unstable|sort_unstable_by|sort_unstable_by_key|skip|step_by|skip_while)$"
FIRST_MATCH = r"Iterator>?::(find|position|find_map)$|^std::iter::Iterator::(find|position|find_map)$"
LOOP_NEXT = r"^<std::slice::Iter<'a, T> as std::iter::Iterator>::next$"
PREDICATE = r"krauss::wildcard_match$|Route>?::route_matches$|route::Route::route_matches$"


def field_idx(prog, struct, name):
    return next(i for i, x in enumerate(prog.structs[struct]["fields"]) if x["name"] == name)


def classify_selection(prog, b, d, idx):
    """Which vector a find(...) selection iterates: 'subapps' | 'sub.routes' | 'sub.ws' | 'def.routes' | 'def.ws' | None."""
    # d is the description of the iterator receiver
    def has_param(x, name):
        return desc_contains(x, lambda y: y[0] in ("param", "upvar") and y[-1] == name)
    inner_find = desc_contains(d, lambda y: y[0] == "call" and (core.re.search(FIRST_MATCH, y[1]) is not None or core.re.search(LOOP_NEXT, y[1]) is not None))
    if inner_find and has_param(d, "subapps"):
        if desc_contains(d, lambda y: y[0] == "field" and y[2] == idx["routes"]):
            return "sub.routes"
        if desc_contains(d, lambda y: y[0] == "field" and y[2] == idx["websocket_routes"]):
            return "sub.ws"
        return None
    if has_param(d, "default_subapp"):
        if desc_contains(d, lambda y: y[0] == "field" and y[2] == idx["routes"]):
            return "def.routes"
        if desc_contains(d, lambda y: y[0] == "field" and y[2] == idx["websocket_routes"]):
            return "def.ws"
        return None
    if has_param(d, "subapps"):
        return "subapps"
    return None


def analyse(chk, prog, cfg, fn, kind, facts):
    b = prog.impl_body(fn)
    chk.floor(f"{fn.split('::')[-1]} [{cfg}]", 1 if b else 0, 1)
    if not b:
        return
    tag = f"{kind}"
    idx = {n: field_idx(prog, "humphrey::route::SubApp", n) for n in ("host", "routes", "websocket_routes")}
    rfields = "humphrey::route::RouteHandler" if kind == "http" else "humphrey::route::WebsocketRouteHandler"
    ridx = {n: field_idx(prog, rfields, n) for n in ("route", "handler")}
    req_uri = field_idx(prog, "humphrey::http::request::Request", "uri")
    req_query = field_idx(prog, "humphrey::http::request::Request", "query")
    req_headers = field_idx(prog, "humphrey::http::request::Request", "headers")

    def fact(rule, site, ok, detail="", where="", path=None):
        facts[(rule, f"{tag}: {site}")] = ok
        chk.ob(rule, fn, site, ok, detail, where=where or b.file, cfg=cfg, path=path)

    # ---- selections
    sels = {}
    for blk, t in b.calls():
        chk.call_sites += 1
        name = t.get("resolved") or t.get("callee") or ""
        if core.re.search(REORDER, name) or core.re.search(REORDER, t.get("callee") or ""):
            fact("R1.first_match", f"order-changing adaptor {(t.get('callee') or '').split('::')[-1]}", False,
                 f"{t.get('callee')} in the route lookup can select something other than the first registered match", where=b.where(blk))
        if core.re.search(FIRST_MATCH, name) or core.re.search(FIRST_MATCH, t.get("callee") or ""):
            recv = describe(prog, b, t["args"][0])
            cls = classify_selection(prog, b, recv, idx)
            direct = desc_contains(recv, lambda y: y[0] == "call" and y[1].endswith("::iter")) and not desc_contains(
                recv, lambda y: y[0] == "call" and core.re.search(r"::(rev|skip|filter|chain|zip|take|step_by)$", y[1]) is not None)
            clos = describe(prog, b, t["args"][1])
            if cls in sels:
                sels[cls]["all"].append(blk)
            else:
                sels[cls] = {"block": blk, "closure": clos[1] if clos[0] == "closure" else None, "direct": direct, "all": [blk]}
    # loop form: `for x in V { if pred(x) { <use x>; return / break } }` — the selection is the loop, its "found" edges are the true
    # edges of the predicate on the loop variable, its "nothing found" edge is the loop's exit
    for blk, t in b.calls_to(LOOP_NEXT):
        recv = describe(prog, b, t["args"][0])
        if not (recv[0] == "call" and recv[1].endswith("IntoIterator>::into_iter") or recv[0] == "call" and recv[1].endswith("::into_iter") or
                recv[0] == "call" and recv[1].endswith("::iter")):
            continue
        cls = classify_selection(prog, b, recv[2][0], idx)
        if cls is None or cls in sels:
            continue
        preds = []
        for pb, pt in b.calls_to(PREDICATE):
            a0 = describe(prog, b, pt["args"][0])
            if desc_contains(a0, lambda y: y[0] == "call" and len(y) > 3 and y[3] == blk) and not \
                    desc_contains(a0, lambda y: y[0] == "call" and core.re.search(LOOP_NEXT, y[1]) is not None and y[3] != blk and
                                  desc_contains(y, lambda z: z[0] == "call" and len(z) > 3 and z[3] == blk)):
                sw = core.bool_test_of_call(b, pb)
                if sw is not None:
                    preds.append((pb, pt, sw))
        if len(preds) != 1:
            continue
        pb, pt, sw = preds[0]
        # first match: once the predicate held for an element the loop does not go on to the next one
        again = blk in b.reachable([sw[1]])
        sels[cls] = {"block": blk, "closure": None, "direct": not again, "all": [blk], "loop": True, "pred": (pb, pt), "some": [(sw[0], sw[1])],
                     "none": some_edge_of(prog, b, blk, "None"), "again": again}
    want = ["subapps", "sub.routes", "def.routes"] if kind == "http" else ["subapps", "sub.ws", "def.ws"]

    def sel_edges(blk, label, union=False):
        for v in sels.values():
            if v.get("loop") and v["block"] == blk:
                return list(v["some"] if label == "Some" else v["none"])
        return some_edge_of(prog, b, blk, label, union=union)
    for w in want:
        fact("R1.first_match", f"first-match selection over {w} in registration order", w in sels and sels[w]["direct"],
             f"no `iter().find(..)`-style first-match selection over {w} (found selections over {sorted(str(k) for k in sels)})")
    extra = [k for k in sels if k not in want]
    fact("R1.first_match", "no selection over another vector", not extra, f"route lookup also selects over {extra}")
    if not all(w in sels for w in want):
        return

    # ---- R2 argument roles (closures)
    def closure_body(w):
        return prog.bodies.get(sels[w]["closure"]) if sels[w]["closure"] else None
    hc = closure_body("subapps")
    if sels["subapps"].get("loop"):
        pb, pt = sels["subapps"]["pred"]
        a0, a1 = describe(prog, b, pt["args"][0]), describe(prog, b, pt["args"][1])
        fact("R2.roles", "host closure calls wildcard_match", pt["callee"].endswith("wildcard_match"), f"predicate is {pt['callee']}")
        ok0 = desc_contains(a0, lambda y: y[0] == "field" and y[2] == idx["host"] and desc_contains(y[1], lambda z: z[0] == "call" and len(z) > 3 and z[3] == sels["subapps"]["block"]))
        ok1 = desc_contains(a1, lambda y: y[0] == "call" and y[1].endswith("Headers::get") and any(core.is_variant(z, "HeaderType", "Host") for z in y[2]))
        ok1 = ok1 and desc_contains(a1, lambda y: y[0] == "field" and y[2] == req_headers)
        fact("R2.roles", "wildcard_match(pattern <- SubApp.host, text <- request Host header)", ok0 and ok1,
             f"wildcard_match is called with ({core.short(str(a0))[:80]}, {core.short(str(a1))[:120]})", where=b.where(pb))
    elif hc:
        calls = hc.calls_to(r"krauss::wildcard_match$")
        fact("R2.roles", "host closure calls wildcard_match", len(calls) == 1, f"{len(calls)} wildcard_match calls")
        for blk, t in calls:
            a0 = describe(prog, hc, t["args"][0])
            a1 = resolve_upvars(prog, hc, describe(prog, hc, t["args"][1]))
            ok0 = desc_contains(a0, lambda y: y[0] == "field" and y[2] == idx["host"] and y[1][0] == "param")
            ok1 = desc_contains(a1, lambda y: y[0] == "call" and y[1].endswith("Headers::get") and any(core.is_variant(z, "HeaderType", "Host") for z in y[2]))
            ok1 = ok1 and desc_contains(a1, lambda y: y[0] == "field" and y[2] == req_headers)
            fact("R2.roles", "wildcard_match(pattern <- SubApp.host, text <- request Host header)", ok0 and ok1,
                 f"wildcard_match is called with ({core.short(str(a0))[:80]}, {core.short(str(a1))[:120]})", where=hc.where(blk))
    for w in want[1:]:
        rc = closure_body(w)
        if sels[w].get("loop"):
            pb, pt = sels[w]["pred"]
            fact("R2.roles", f"{w}: closure calls route_matches", pt["callee"].endswith("route_matches") or (pt.get("resolved") or "").endswith("route_matches"), f"predicate is {pt['callee']}")
            a0, a1 = describe(prog, b, pt["args"][0]), describe(prog, b, pt["args"][1])
            ok0 = desc_contains(a0, lambda y: y[0] == "field" and y[2] == ridx["route"] and desc_contains(y[1], lambda z: z[0] == "call" and len(z) > 3 and z[3] == sels[w]["block"]))
            ok1 = desc_contains(a1, lambda y: y[0] == "field" and y[2] == req_uri and desc_contains(y[1], lambda z: z[0] in ("param", "upvar") and z[-1] == "request"))
            bad = desc_contains(a1, lambda y: y[0] == "field" and y[2] == req_query)
            fact("R2.roles", f"{w}: route_matches(pattern <- route.route, text <- request.uri)", ok0 and ok1 and not bad,
                 f"route_matches is called with ({core.short(str(a0))[:80]}, {core.short(str(a1))[:120]})", where=b.where(pb))
            continue
        if not rc:
            fact("R2.roles", f"{w}: predicate is a closure", False, "selection predicate is not a local closure")
            continue
        calls = rc.calls_to(r"Route>?::route_matches$|route::Route::route_matches$")
        fact("R2.roles", f"{w}: closure calls route_matches", len(calls) == 1, f"{len(calls)} route_matches calls")
        for blk, t in calls:
            a0 = describe(prog, rc, t["args"][0])
            a1 = resolve_upvars(prog, rc, describe(prog, rc, t["args"][1]))
            ok0 = desc_contains(a0, lambda y: y[0] == "field" and y[2] == ridx["route"] and y[1][0] == "param")
            ok1 = desc_contains(a1, lambda y: y[0] == "field" and y[2] == req_uri and desc_contains(y[1], lambda z: z[0] in ("param", "upvar") and z[-1] == "request"))
            bad = desc_contains(a1, lambda y: y[0] == "field" and y[2] == req_query)
            fact("R2.roles", f"{w}: route_matches(pattern <- route.route, text <- request.uri)", ok0 and ok1 and not bad,
                 f"route_matches is called with ({core.short(str(a0))[:80]}, {core.short(str(a1))[:120]})", where=rc.where(blk))

    # ---- R3 precedence
    host_get = [blk for blk, t in b.calls_to(r"Headers::get$") if core.is_variant(describe(prog, b, t["args"][1]), "HeaderType", "Host")]
    fact("R3.precedence", "Host header looked up", len(host_get) == 1, f"{len(host_get)} lookups")
    none_edges = set()
    some_edges = {}
    for name, blk in [("host-header", host_get[0] if host_get else None), ("host-sel", sels["subapps"]["block"]), ("sub-route", sels[want[1]]["block"]), ("def-route", sels[want[2]]["block"])]:
        if blk is None:
            continue
        some_edges[name] = sel_edges(blk, "Some")
        for e in sel_edges(blk, "None", union=True):
            if name != "def-route":
                none_edges.add(e)
    def_none = set(e for blk in sels[want[2]]["all"] for e in sel_edges(blk, "None"))
    def_some = set(e for blk in sels[want[2]]["all"] for e in sel_edges(blk, "Some"))
    sub_some = set(sel_edges(sels[want[1]]["block"], "Some"))
    # use sites: returned handler (http) / served handler (ws)
    uses = []   # (block, 'sub'|'def'|'none')
    merged_uses = set()

    def add_use(blk, d):
        """One use per origin: a value merged from several places (`a.or_else(|| b)`, a `let` assigned in two arms) is a use of each
        alternative at the place where that alternative is chosen."""
        o = _origin(d, sels, want)
        if o == "unknown":
            m = next((y for y in core.desc_subterms(d) if y[0] == "multi" and len(y) >= 5 and len(y[1]) == len(y[4])), None)
            # outermost merge first: desc_subterms is depth-first from the root
            if m is not None:
                for alt, ablk in zip(m[1], m[4]):
                    if core.is_variant(alt, "Option", "None"):
                        continue
                    merged_uses.add(ablk)
                    add_use(ablk, alt)
                return
        uses.append((blk, o))
    if kind == "http":
        for blk_i, blk in enumerate(b.blocks):
            for s in blk["stmts"]:
                if "pl" in s and s["pl"]["l"] == 0 and not s["pl"]["p"]:
                    if s["rv"]["k"] == "agg":
                        if s["rv"]["variant"] == "None":
                            uses.append((blk_i, "none"))
                        else:
                            add_use(blk_i, describe(prog, b, s["rv"]["ops"][0]))
                    elif s["rv"]["k"] == "use":
                        # the result of a selection returned as it is: its element if it found one, otherwise "no route"
                        d = describe(prog, b, s["rv"]["o"])
                        if core.is_variant(d, "Option", "None"):
                            uses.append((blk_i, "none"))
                        else:
                            merged_uses.add(blk_i)
                            add_use(blk_i, d)
                            uses.append((blk_i, "none" if _origin(d, sels, want) != "def" else "none-is-default's"))
    else:
        for blk, t in b.calls_to(r"WebsocketHandler::serve$"):
            add_use(blk, describe(prog, b, t["args"][0]))
        for r in core.return_blocks(b):
            uses.append((r, "exit"))
    kinds = [k for _, k in uses]
    fact("R3.precedence", "a handler from the host sub-app is used", "sub" in kinds, f"use sites: {kinds}")
    fact("R3.precedence", "a handler from the default sub-app is used", "def" in kinds, f"use sites: {kinds}")
    fact("R3.precedence", "no handler of unknown origin is used", "unknown" not in kinds, f"use sites: {kinds}")
    entry = [0]
    for blk, k in uses:
        if k == "sub":
            # (decided on the product with the variant each Option local holds: a `?` that returned None cannot reach a Some arm)
            ok = all(bool(some_edges.get(n)) and core.must_pass(b, entry, [blk], through_edges=set(some_edges[n]), after_from=False) is None
                     for n in ("host-header", "host-sel", "sub-route"))
            fact("R3.precedence", "sub-app handler used only when Host, host pattern and sub-app route all matched", ok,
                 "the host-specific handler is used on a path where one of the three matches failed", where=b.where(blk))
        elif k == "def":
            w = core.must_pass(b, entry, [blk], through_edges=none_edges, after_from=False)
            fact("R3.precedence", "default handler used only after a None edge of Host / host selection / sub-app route selection", w is None,
                 "the default application's route is used although the host-specific sub-app may have a matching route (default consulted first)",
                 where=b.where(blk), path=w)
            # (where the selection's result is passed on as an Option, taking the element out of it is the Some edge)
            ok = any(b.edge_dominates(s, t, blk) for (s, t) in def_some) or blk in merged_uses
            fact("R3.precedence", "default handler use dominated by its own Some edge", ok, "", where=b.where(blk))
        elif k == "none-is-default's":
            fact("R5.no_match", "None only after the default selection found nothing", True, where=b.where(blk))
        elif k == "none":
            w = core.must_pass(b, entry, [blk], through_edges=def_none, after_from=False)
            fact("R5.no_match", "None only after the default selection found nothing", w is None,
                 "the lookup can answer 'no route' without consulting the default application", where=b.where(blk), path=w)
    if kind == "ws":
        # no-match path: from the None edge of the default selection no serve call and no write is reachable
        serve_blocks = [blk for blk, t in b.calls_to(r"WebsocketHandler::serve$|Write::write|write_all")]
        for (s, t) in def_none:
            seen = b.reachable([t])
            fact("R5.no_match", "no WebSocket match: no handler call, nothing written", not any(x in seen for x in serve_blocks),
                 "a handler is called / bytes are written although no WebSocket route matched")
        # sub-app serve must not fall through to the default lookup (served at most once)
        sub_serves = [blk for blk, k in uses if k == "sub"]
        def_serves = [blk for blk, k in uses if k == "def"]
        for sblk in sub_serves:
            seen = b.reachable(b.succs(sblk))
            fact("R3.precedence", "after serving the sub-app handler the default handler is not served as well", not any(x in seen for x in def_serves),
                 "both handlers can run for one upgrade request", where=b.where(sblk))


def _origin(d, sels, want):
    blocks = {k: v["all"] for k, v in sels.items()}
    hit_sub = desc_contains(d, lambda y: y[0] == "call" and len(y) > 3 and y[3] in blocks[want[1]])
    hit_def = desc_contains(d, lambda y: y[0] == "call" and len(y) > 3 and y[3] in blocks[want[2]])
    if hit_sub and not hit_def:
        return "sub"
    if hit_def and not hit_sub:
        return "def"
    return "unknown"


def route_for_string(chk, prog, cfg):
    fs = prog.impl_fn(r"^<std::string::String as humphrey::route::Route>$", "route_matches")
    chk.floor(f"Route for String [{cfg}]", len(fs), 1)
    for f in fs:
        b = prog.bodies[f]
        calls = b.calls_to(r"krauss::wildcard_match$")
        chk.ob("R2.roles", f, "route_matches calls wildcard_match once", len(calls) == 1, cfg=cfg)
        for blk, t in calls:
            a0, a1 = describe(prog, b, t["args"][0]), describe(prog, b, t["args"][1])
            ok = desc_contains(a0, lambda y: y[0] == "param" and y[1] == 1) and desc_contains(a1, lambda y: y[0] == "param" and y[1] == 2) \
                and not desc_contains(a0, lambda y: y[0] == "param" and y[1] == 2)
            chk.ob("R2.roles", f, "wildcard_match(pattern <- self, text <- argument)", ok,
                   f"arguments are ({a0}, {a1}): pattern and text are swapped, so `*` in a request path would act as a wildcard", where=b.where(blk), cfg=cfg)


def registration(chk, prog, cfg):
    """R4: vectors of routes / sub-apps are only ever appended to."""
    MUT = r"^std::vec::Vec::<T, A>::(insert|sort|sort_by|sort_by_key|sort_unstable|dedup|dedup_by|dedup_by_key|retain|retain_mut|swap_remove|remove|truncate|clear|drain|splice|reverse|rotate_left|rotate_right|swap|pop)$|slice::<impl \[T\]>::(sort|sort_by|sort_by_key|sort_unstable|sort_unstable_by|sort_unstable_by_key|reverse|swap|rotate_left|rotate_right)$"
    pushes = 0
    for p, b in prog.bodies.items():
        if not p.startswith("humphrey::") or "promoted" in p:
            continue
        for blk, t in b.calls():
            tys = " ".join(t.get("arg_tys", [])[:1])
            if not any(x in tys for x in ("RouteHandler<", "WebsocketRouteHandler<", "route::SubApp<")):
                continue
            if "Vec<" not in tys and "[" not in tys:
                continue
            if core.call_matches(t, r"^std::vec::Vec::<T, A>::push$"):
                pushes += 1
                chk.ob("R4.registration", p, "route/sub-app vector appended with push", True, where=b.where(blk), cfg=cfg)
            elif core.call_matches(t, MUT):
                chk.ob("R4.registration", p, f"route/sub-app vector mutated by {t['callee'].split('::')[-1]}", False,
                       f"{t['callee']} on {tys}: registration order is no longer the lookup order", where=b.where(blk), cfg=cfg)
    chk.floor(f"registration push sites [{cfg}]", pushes, 5)
    # a registration is an append, on every path: a builder that sometimes rewrites an existing entry instead (same pattern registered twice ->
    # the later handler takes the first one's place, ahead of routes registered in between) breaks "first registered route wins"
    for p, b in sorted(prog.bodies.items()):
        if not p.startswith("humphrey::") or "promoted" in p or "{closure" in p:
            continue
        ps = [blk for blk, t in b.calls_to(r"^std::vec::Vec::<T, A>::push$") if any(x in " ".join(t.get("arg_tys", [])[:1]) for x in ("RouteHandler<", "WebsocketRouteHandler<"))]
        if not ps or not core.re.search(r"::with_\w*route$", p):
            continue
        w = core.must_pass(b, [0], core.return_blocks(b), through_nodes=ps, after_from=False)
        chk.ob("R4.registration", p, "the route is appended on every path through the builder", w is None,
               "the builder can return without appending the new route (it rewrites or skips instead): registration order is no longer lookup order", path=w, cfg=cfg)
    for sname in ("humphrey::route::RouteHandler", "humphrey::route::WebsocketRouteHandler"):
        st = prog.structs.get(sname, {}).get("fields", [])
        frozen = {i for i, x in enumerate(st) if x["name"] in ("route", "handler")}
        short = sname.rsplit("::", 1)[-1] + "<"
        for p, b in sorted(prog.bodies.items()):
            if not p.startswith("humphrey::") or "promoted" in p:
                continue
            for bi, blk in enumerate(b.blocks):
                for st_ in blk["stmts"]:
                    if "pl" not in st_ or "rv" not in st_:
                        continue
                    fs = [e for e in st_["pl"]["p"] if e[0] == "f"]
                    if len(fs) == 1 and fs[0][1] in frozen and short in (b.local_ty(st_["pl"]["l"]) or "") and [e for e in st_["pl"]["p"] if e[0] == "d"]:
                        chk.ob("R4.registration", p, f"a registered {short[:-1]}'s pattern / handler is never rewritten in place", False,
                               f"field `{st[fs[0][1]]['name']}` of an entry of the route list is overwritten: the entry keeps its position but no longer is what was registered there",
                               where=b.where(bi), cfg=cfg)


def http_no_match(chk, prog, cfg):
    """R5 (HTTP): the None arm of the handler lookup in the connection loop answers error_handler(NotFound)."""
    from . import c01
    for b in c01.find_loops(prog):
        gh = [blk for blk, t in b.calls_to(r"::get_handler$")]
        for g in gh:
            for (s, tgt) in some_edge_of(prog, b, g, "None"):
                seen = b.reachable([tgt], stop=set(blk for blk, t in b.calls() if (t.get("callee") or "").endswith("Into::into")))
                found = False
                for blk in seen:
                    t = b.term(blk)
                    if t and t["k"] == "call" and t.get("callee") is None:
                        if any(core.is_variant(describe(prog, b, a), "StatusCode", "NotFound") for a in t["args"]) and b.edge_dominates(s, tgt, blk):
                            found = True
                chk.ob("R5.no_match", b.path, f"no handler -> error_handler(NotFound) [{'OPTIONS' if c01._under_options(prog, b, g) else 'normal'}]", found,
                       "an unrouted request is not answered with the error handler's 404", where=b.where(g), cfg=cfg)


def ws_dispatch_guard(chk, prog, cfg):
    """R5.ws_dispatch: "WebSocket requests follow the same host-then-route rule": whether an upgrade request is handed to the WebSocket lookup
    depends on the request alone (it parsed, and asks for `Upgrade: websocket`) — not on what is registered where (a flag computed from the
    default sub-app's routes hides WebSocket routes that exist only on a host sub-app)."""
    from . import c01
    n = 0
    for b in c01.find_loops(prog):
        for blk, t in b.calls_to(r"::call_websocket_handler$"):
            n += 1
            odd = []
            for s_, lab, gd, info in core.guards_dominating(prog, b, blk):
                if not isinstance(gd, tuple):
                    continue
                if desc_contains(gd, lambda y: (y[0] in ("param", "upvar") and core.re.search(r"subapp", str(y[-1]) or "") is not None) or
                                 (y[0] == "call" and core.re.search(r"route::SubApp|::get_handler$", y[1]) is not None)):
                    odd.append((lab, core.short(str(gd))[:80]))
            chk.ob("R5.ws_dispatch", b.path, "the WebSocket lookup is entered for every parsed `Upgrade: websocket` request (no condition on the registered routes)", not odd,
                   f"the dispatch also depends on {odd}: an upgrade request for a WebSocket route of a host sub-app is answered as ordinary HTTP", where=b.where(blk), cfg=cfg)
            # ... and on no header other than Upgrade (the two runtimes must take the same requests for upgrades: a gate on the exact value of
            # `Connection` in one of them turns `Connection: keep-alive, Upgrade` requests into ordinary HTTP there)
            hdrs = set()
            for s_, lab, gd, info in core.guards_dominating(prog, b, blk):
                for c in (core.desc_calls(gd) if isinstance(gd, tuple) else []):
                    if core.re.search(r"headers::Headers::(get|get_all|contains)$", c[1]) and len(c[2]) > 1:
                        a = c[2][1]
                        while isinstance(a, tuple) and a and a[0] == "call" and a[2]:
                            a = a[2][0]
                        hdrs.add(a[2] if isinstance(a, tuple) and a and a[0] == "variant" else str(a[1]) if isinstance(a, tuple) and a and a[0] == "lit" else "?")
            chk.ob("R5.ws_dispatch", b.path, "which requests count as WebSocket upgrades is decided by the Upgrade header alone", hdrs <= {"Upgrade", "upgrade"} and bool(hdrs),
                   f"the dispatch is gated on the headers {sorted(hdrs)}", where=b.where(blk), cfg=cfg)
    chk.floor(f"WebSocket dispatch sites in the connection loop [{cfg}]", n, 1)


def fresh_lookup(chk, prog, cfg):
    """R6: in the connection loop the handler that serves a request comes from the route lookup made for that request
    and from nothing else (no handler remembered from an earlier request on the connection)."""
    from . import c01
    n = 0
    for b in c01.find_loops(prog):
        for blk, t in b.calls_to(r"handler_traits::RequestHandler::serve$"):
            n += 1
            l = core.op_local(t["args"][0])
            prods = core.slice_back(prog, b, l, transparent_extra=[r"Option::<T>::(unwrap|expect|as_ref|copied|cloned)$"])
            calls = sorted(set(p.name() for p in prods if p.kind == "call"))
            others = [c for c in calls if not c.endswith("::get_handler")]
            reqs = []
            for p in prods:
                if p.kind == "call" and p.name().endswith("::get_handler"):
                    reqs.append(core.describe(prog, b, p.data["args"][0]))
            same_req = all(desc_contains(r, lambda y: y[0] == "call" and core.re.search(r"Request::from_stream", y[1]) is not None) for r in reqs) and bool(reqs)
            chk.ob("R6.fresh_lookup", b.path, "the serving handler derives only from get_handler(<this request>)", not others and same_req,
                   f"the handler that serves the request also flows from {others}: the choice can depend on an earlier request on the connection, "
                   f"not only on this request's Host, path and the registration order", where=b.where(blk), cfg=cfg)
    chk.floor(f"handler serve sites in the connection loop [{cfg}]", n, 1)


NORMALISERS = (r"(to_ascii_lowercase|to_ascii_uppercase|to_lowercase|to_uppercase|make_ascii_lowercase|make_ascii_uppercase|eq_ignore_ascii_case|"
               r"trim|trim_start|trim_end|trim_matches|trim_start_matches|trim_end_matches|nfc|nfd|nfkc|nfkd|percent_decode|replace|replacen)$")


def literal_matching(chk, prog, cfg):
    """R7: patterns generalise only through `*`: the matcher and the code that feeds it compare characters as they are
    (no case folding, trimming or other normalisation of pattern or text), so `/Docs` and `/docs` are different routes."""
    roots = [p for p in prog.bodies if p == "humphrey::krauss::wildcard_match" or p.endswith("route::Route>::route_matches") or p.endswith("::route_matches")]
    chk.floor(f"matcher bodies [{cfg}]", len(roots), 2)
    reach = sorted(prog.reach_bodies(roots, extra_edges=lambda bb: [c.path for c in prog.closures_of(bb.path)]))
    n = 0
    bad = []
    for pth in reach:
        bb = prog.bodies[pth]
        for blk, t in bb.calls():
            n += 1
            if core.call_matches(t, NORMALISERS):
                bad.append((bb, blk, t))
        # method references passed as values, e.g. `.map(char::to_ascii_lowercase)`
        for bi, blk_ in enumerate(bb.blocks):
            for st in blk_["stmts"]:
                o = st.get("rv", {}).get("o") if st.get("rv") else None
                for cand in ([o] if isinstance(o, dict) else []) + (st.get("rv", {}).get("ops") or [] if st.get("rv") else []):
                    if isinstance(cand, dict) and cand.get("k") == "const" and core.re.search(NORMALISERS, str(cand.get("fn") or cand.get("def") or cand.get("repr") or "").rstrip()):
                        bad.append((bb, bi, {"callee": str(cand.get("fn") or cand.get("def") or cand.get("repr"))}))
            t = blk_["term"]
            if t and t["k"] == "call":
                for a in t["args"]:
                    if a.get("k") == "const" and core.re.search(NORMALISERS, str(a.get("fn") or a.get("def") or a.get("repr") or "").rstrip()):
                        bad.append((bb, bi, {"callee": str(a.get("fn") or a.get("def") or a.get("repr"))}))
    chk.floor(f"calls examined in the matcher [{cfg}]", n, 10)
    for bb, blk, t in bad:
        chk.ob("R7.literal_match", bb.path, f"normalising call {core.short(t['callee'])} in the matcher", False,
               f"{t['callee']} changes what is compared: a pattern then also matches texts that differ from it other than through `*` (an earlier route / host can shadow the right one)",
               where=bb.where(blk), cfg=cfg)
    chk.ob("R7.literal_match", "humphrey::krauss::wildcard_match", "pattern and text characters are compared as they are (no case folding / trimming / decoding)", not bad, "", cfg=cfg)


def run(chk):
    chk.explanation = (
        "Static decision of the routing rule's structural clauses on the four lookup functions (get_handler, call_websocket_handler; threaded [A] "
        "and tokio [B]): each selection is a first-match over the registration-ordered vector, pattern/text argument roles are right, the "
        "host-specific handler is used only when Host, host pattern and route matched, the default only after one of them failed, None only "
        "after the default failed; registration only appends; siblings agree.")
    chk.not_decided = "the matcher's own semantics (C05); handler behaviour"
    chk.assumptions = ["rustc type checking / MIR construction / callee resolution", "Iterator::find on a slice iterator returns the first element satisfying the predicate"]
    facts = {}
    for cfg in ("A", "B"):
        prog = chk.use(core.load(cfg, fresh=(chk.tier == "thorough")))
        pre = "humphrey::app::" if cfg == "A" else "humphrey::tokio::app::"
        facts[cfg] = {}
        analyse(chk, prog, cfg, pre + "get_handler", "http", facts[cfg])
        analyse(chk, prog, cfg, pre + "call_websocket_handler", "ws", facts[cfg])
        route_for_string(chk, prog, cfg)
        registration(chk, prog, cfg)
        http_no_match(chk, prog, cfg)
        fresh_lookup(chk, prog, cfg)
        ws_dispatch_guard(chk, prog, cfg)
        literal_matching(chk, prog, cfg)
        # the path that is matched is the target up to its first '?'
        from . import shared
        shared.target_split(chk, prog, "R7.path_without_query", cfg=cfg)
    for k in sorted(set(facts["A"]) | set(facts["B"])):
        va, vb = facts["A"].get(k), facts["B"].get(k)
        chk.ob("R.sibling", "routing[A] vs routing[B]", f"{k[0]}: {k[1]}", va == vb, f"threaded: {va}, tokio: {vb}")
    # http vs ws twins within one runtime
    for cfg in ("A", "B"):
        h = {(r, s.split(": ", 1)[1].replace("sub.routes", "sub.*").replace("def.routes", "def.*")): v for (r, s), v in facts[cfg].items() if s.startswith("http: ") and r in ("R1.first_match", "R2.roles")}
        w = {(r, s.split(": ", 1)[1].replace("sub.ws", "sub.*").replace("def.ws", "def.*")): v for (r, s), v in facts[cfg].items() if s.startswith("ws: ") and r in ("R1.first_match", "R2.roles")}
        for k in sorted(set(h) | set(w)):
            chk.ob("R.sibling", f"get_handler vs call_websocket_handler [{cfg}]", f"{k[0]}: {k[1]}", h.get(k) == w.get(k), f"http: {h.get(k)}, websocket: {w.get(k)}")

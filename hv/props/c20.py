"""C20 — a shutdown signal always ends `run` and frees the port (structural clauses)."""
from .. import core, tables
from ..core import describe_r as describe, desc_contains, switch_info
from .c01 import some_edge_of

LEAK = r"^std::mem::forget$|Box::<T>::leak$|Box::<T, A>::leak$|ManuallyDrop::<T>::new$|IntoRawFd::into_raw_fd$|into_raw_socket$|Box::<T>::into_raw$|Arc::<T>::into_raw$"


ACCEPT_BLOCKING = (r"mpsc::SyncSender::<T>::send$|mpsc::Receiver::<T>::(recv|recv_timeout|iter)$|mpsc::Receiver<T> as std::iter::IntoIterator|"
                   r"JoinHandle::<T>::join$|std::sync::Condvar::wait|std::sync::Barrier::wait$|^std::thread::sleep$|^std::thread::park|"
                   r"TcpStream::connect$|Read>?::read(_exact|_to_end|_to_string|_vectored|_buf)?$|BufRead>?::read_(line|until)$|http::Request::from_stream|"
                   r"std::net::TcpStream::(peek|read|read_exact)$|std::net::UdpSocket::(recv|recv_from|peek|peek_from)$|BufRead>?::fill_buf$|^std::io::copy$|"
                   r"std::net::TcpStream as std::io::Write>::(write|write_all|flush)$|process::Child::wait")

DETACH_BREAKERS = r"JoinSet|AbortHandle|JoinHandle::<T>::abort$|Runtime::shutdown_(timeout|background)$|LocalSet|task::spawn_local$"


def threaded_run(chk, prog, cfg, fn):
    run = prog.bodies.get(fn)
    chk.floor(f"{core.short(fn)} [{cfg}]", 1 if run else 0, 1)
    if not run:
        return
    tag = fn.rsplit("::", 1)[-1]
    # accept-loop closure: the closure given to thread::spawn that iterates TcpListener::incoming
    loops = [c for c in prog.closures_of(fn) if c.calls_to(r"TcpListener::incoming$|TcpListener::accept$")]
    chk.floor(f"accept-loop closure of {tag} [{cfg}]", len(loops), 1)
    if not loops:
        return
    lp = loops[0]
    nexts = [blk for blk, t in lp.calls_to(r"Incoming<'a> as std::iter::Iterator>::next$|Iterator::next$|TcpListener::accept$")]
    loads = [blk for blk, t in lp.calls_to(r"atomic::Atomic::<bool>::load$|AtomicBool::load$")]
    chk.floor(f"accept site [{cfg}/{tag}]", len(nexts), 1)
    chk.floor(f"shutdown flag load [{cfg}/{tag}]", len(loads), 1)
    dispatch = [blk for blk, t in lp.calls_to(r"ThreadPool::execute$")]
    cond = [blk for blk, t in lp.calls() if t.get("callee") is None]
    chk.floor(f"dispatch site [{cfg}/{tag}]", len(dispatch), 1)
    # R1: flag tested between accept and dispatch, on every iteration
    for nb in nexts:
        for (s, tgt) in some_edge_of(prog, lp, nb, "Some"):
            w = core.must_pass(lp, [tgt], dispatch + cond, through_nodes=loads, after_from=False)
            chk.ob("R1.flag_every_iteration", lp.path, "accepted connection -> condition/dispatch passes the shutdown-flag load", w is None,
                   "a connection can be dispatched without looking at the shutdown flag", path=w, cfg=cfg)
    w = core.must_pass(lp, nexts, nexts, through_nodes=loads)
    chk.ob("R1.flag_every_iteration", lp.path, "every accept-loop cycle loads the flag", w is None, "", path=w, cfg=cfg)
    for lb in loads:
        sw = core.bool_test_of_call(lp, lb)
        chk.ob("R1.flag_breaks", lp.path, "flag value is branched on", sw is not None, "the loaded flag is not tested", cfg=cfg)
        if sw:
            sb, tt, ff = sw
            seen = lp.reachable([tt])
            chk.ob("R1.flag_breaks", lp.path, "flag == true leaves the accept loop", not any(n in seen for n in nexts),
                   "the loop keeps accepting after the shutdown flag was set", where=lp.where(sb), cfg=cfg)
            seen = lp.reachable([ff])
            chk.ob("R1.flag_breaks", lp.path, "flag == false keeps serving", any(d in seen for d in dispatch),
                   "with the flag clear the connection is not dispatched (server stops serving before the signal)", where=lp.where(sb), cfg=cfg)
        # the flag the loop reads is the one `run` sets
        d = describe(prog, lp, lp.term(lb)["args"][0])
        origin = [c[3] for c in core.desc_calls(d) if c[1].endswith("Arc::<T>::new") and len(c) > 3]
        stores = run.calls_to(r"atomic::Atomic::<bool>::store$|AtomicBool::store$")
        so = []
        for blk, t in stores:
            dd = describe(prog, run, t["args"][0])
            so += [c[3] for c in core.desc_calls(dd) if c[1].endswith("Arc::<T>::new") and len(c) > 3]
        chk.ob("R1.same_flag", lp.path, "the loop reads the flag that run() stores", bool(origin) and set(origin) & set(so) != set(),
               f"load reads {origin}, store writes {so}", cfg=cfg)
    # the accept loop is left only through the flag == true edge (or when the listener's iterator ends): until the signal is sent the
    # server keeps accepting, whatever accept() reports
    leave_edges = []
    for lb in loads:
        sw = core.bool_test_of_call(lp, lb)
        if sw:
            leave_edges.append((sw[0], sw[1]))
    for nb in nexts:
        leave_edges += [(s_, tgt) for (s_, tgt) in some_edge_of(prog, lp, nb, "None")]
    if stops_after := [blk for blk, t in lp.calls_to(r"ThreadPool::stop$")]:
        w = core.must_pass(lp, nexts, stops_after + core.return_blocks(lp), through_edges=leave_edges)
        chk.ob("R1.only_flag_leaves", lp.path, "accept -> end of the accept thread only through the shutdown-flag edge (or the end of incoming())", w is None,
               "the accept loop can end although the shutdown flag is clear (e.g. on an accept() error such as EMFILE): the server silently stops serving "
               "before any signal was sent, while run() keeps waiting for the signal", path=w, cfg=cfg)
    stops = [blk for blk, t in lp.calls_to(r"ThreadPool::stop$")]
    w = core.must_pass(lp, [0], core.return_blocks(lp), through_nodes=stops, after_from=False)
    chk.ob("R1.stop_postdominates", lp.path, "every return of the accept thread passes thread_pool.stop()", w is None and bool(stops),
           "the accept thread can end without stopping the pool", path=w, cfg=cfg)

    # R6: nothing in the accept cycle can panic: a panic ends the accept thread (and closes the listener) without any signal, while run()
    # keeps waiting — e.g. `stream.peer_addr().unwrap()` on a connection the client has already reset
    from .. import panics as _pn
    fwd_ = lp.reachable(nexts)
    cyc_ = {n for n in fwd_ if any(x in lp.reachable([n]) for x in nexts)}
    n_sites = 0
    _allow = _pn.load_allow()
    for st_ in _pn.sites_of(prog, lp):
        if st_.block not in cyc_:
            continue
        n_sites += 1
        how, why = _pn.try_discharge(prog, st_)
        if how is None and st_.fingerprint in _allow:
            from . import c03 as _c03
            ok_, why2_ = _c03.check_allow_cond(prog, st_, _allow[st_.fingerprint], {lp.path})
            if ok_:
                how, why = "reviewed", f"{_allow[st_.fingerprint]['reason']} [{why2_}]"
        chk.ob("R6.accept_never_panics", lp.path, f"{st_.kind} {core.short(st_.what)} in the accept cycle cannot fire", how is not None,
               f"{st_.kind} {st_.what} can panic in the accept thread ({why or 'no discharge idiom applies'}): the listener is closed without a signal and run() never returns",
               where=lp.where(st_.block), cfg=cfg)
    chk.extra.setdefault("accept_cycle_panic_sites", {})[f"{cfg}/{tag}"] = n_sites
    # R6: nothing in the accept cycle (or in what it calls) can block other than accept itself, so the flag is looked at
    # as soon as the wake-up connection arrives, however many connections are queued or being handled
    fwd = lp.reachable(nexts)
    cyc = [n for n in fwd if any(x in lp.reachable([n]) for x in nexts)]
    roots = set()
    direct = []
    for n in cyc:
        t = lp.term(n)
        if t and t["k"] == "call":
            if n not in nexts:
                direct.append((lp, n, t))
            r = t.get("resolved")
            if r:
                roots.add(r)
    inner = []
    for pth in sorted(prog.reach_bodies(roots)):
        bb = prog.bodies[pth]
        if bb.path.startswith(lp.path + "::{closure"):
            continue    # the task handed to the pool runs on a worker
        for blk, t in bb.calls():
            inner.append((bb, blk, t))
    chk.floor(f"calls examined in the accept cycle [{cfg}/{tag}]", len(direct) + len(inner), 20)
    bad = 0
    for bb, blk, t in direct + inner:
        if core.call_matches(t, ACCEPT_BLOCKING):
            bad += 1
            chk.ob("R6.accept_never_blocks", lp.path, f"blocking call {core.short(t['callee'])} in {core.short(bb.path)}", False,
                   f"{t['callee']} can block the accept thread (bounded queue / wait / join): the shutdown flag is not looked at and run() does not return while it waits",
                   where=bb.where(blk), cfg=cfg)
    chk.ob("R6.accept_never_blocks", lp.path, "accept cycle: dispatch and monitoring only use non-blocking sends", bad == 0, "", cfg=cfg)

    # R2: recv -> store(true) -> connect(loopback(addr)) -> join
    recvs = [blk for blk, t in run.calls_to(r"mpsc::Receiver::<T>::recv$")]
    stores = [blk for blk, t in run.calls_to(r"atomic::Atomic::<bool>::store$|AtomicBool::store$")
              if core.describe(prog, run, t["args"][1]) == ("lit", True)]
    connects = []
    for blk, t in run.calls_to(r"^std::net::TcpStream::connect(_timeout)?$"):
        d = describe(prog, run, t["args"][0])
        if desc_contains(d, lambda y: y[0] == "call" and y[1].endswith("unspecified_socket_to_loopback") and desc_contains(y[2], lambda z: z[0] == "param" and z[2] == "addr")):
            connects.append(blk)
    joins = [blk for blk, t in run.calls_to(r"JoinHandle::<T>::join$")]
    chk.floor(f"shutdown recv in {tag} [{cfg}]", len(recvs), 1)
    chk.floor(f"join of the accept thread in {tag} [{cfg}]", len(joins), 1)
    w = core.must_pass(run, recvs, joins, through_nodes=stores)
    chk.ob("R2.wake_up", fn, "signal received -> join passes store(true)", w is None and bool(stores), "the flag is not set before waiting for the accept thread", path=w, cfg=cfg)
    w = core.must_pass(run, recvs, joins, through_nodes=connects)
    chk.ob("R2.wake_up", fn, "signal received -> join passes connect(unspecified_socket_to_loopback(addr))", w is None and bool(connects),
           "the blocked accept() is not woken up: run() waits for the next client before it returns", path=w, cfg=cfg)
    w = core.must_pass(run, recvs, connects, through_nodes=stores)
    chk.ob("R2.wake_up", fn, "store(true) precedes the wake-up connect", w is None,
           "the wake-up connection can be accepted (and dispatched) before the flag is set; the loop then blocks in accept again", path=w, cfg=cfg)
    # between the signal and the join nothing waits in a loop: the wake-up is one best-effort connect (the accept thread may already have seen
    # the flag through a real client and closed the listener, after which a connect that is retried until it succeeds never does)
    reg = run.reachable([s_ for r_ in recvs for s_ in run.succs(r_)], removed_nodes=set(joins))
    reg = {n_ for n_ in reg if any(j_ in run.reachable([n_]) for j_ in joins) and not run.blocks[n_].get("cleanup")}
    cyc = sorted(n_ for n_ in reg if n_ in run.reachable(run.succs(n_), removed_nodes=set(joins)))
    waits = [n_ for n_ in cyc if run.term(n_) and run.term(n_)["k"] == "call" and core.call_matches(run.term(n_), r"TcpStream::connect(_timeout)?$|thread::sleep$|park(_timeout)?$|mpsc::Receiver::<T>::recv")]
    chk.ob("R2.wake_up_once", fn, "signal -> join: no connect / sleep / wait sits in a loop", not waits,
           "the wake-up (or a wait) is repeated in a loop between the signal and the join: once the accept thread has closed the listener the loop's exit "
           "condition can never hold and run() does not return", where=run.where(waits[0]) if waits else "", cfg=cfg)
    roots_ = {run.term(n_).get("resolved") for n_ in reg if run.term(n_) and run.term(n_)["k"] == "call" and run.term(n_).get("resolved")}
    for pth_ in sorted(prog.reach_bodies({r_ for r_ in roots_ if r_ in prog.bodies and r_.startswith("humphrey")})):
        hb_ = prog.bodies[pth_]
        if hb_.path.startswith(lp.path) or not pth_.startswith("humphrey"):
            continue
        for blk_, t_ in hb_.calls_to(r"TcpStream::connect(_timeout)?$|thread::sleep$"):
            inloop = blk_ in hb_.reachable(hb_.succs(blk_))
            chk.ob("R2.wake_up_once", pth_, f"{core.short(t_['callee'])} on the shutdown path is not retried in a loop", not inloop,
                   "a helper called between the signal and the join connects / sleeps in a loop: run() may never return", where=hb_.where(blk_), cfg=cfg)
    # run returns only after join
    oks = core.ok_return_blocks(run, "Ok")
    spawns = [blk for blk, t in run.calls_to(r"^std::thread::spawn$")]
    w = core.must_pass(run, spawns, oks, through_nodes=joins)
    chk.ob("R4.listener_closed", fn, "run() returns Ok only after joining the thread that owns the listener", w is None and bool(spawns),
           "run() can return while the accept thread (and its listening socket) is still alive: the port cannot be re-bound", path=w, cfg=cfg)
    sock = [u for u in lp.upvars if "TcpListener" in lp.local_ty(1) or u["name"] == "socket"]
    owns = any("TcpListener" in (core.describe_upvar(prog, lp, u["field"]) and run.local_ty(core.op_local(_closure_op(run, lp, u["field"])) or 0)) for u in lp.upvars if _closure_op(run, lp, u["field"]) is not None)
    chk.ob("R4.listener_closed", fn, "the listener is owned by the joined accept thread", owns, "no TcpListener is moved into the accept closure", cfg=cfg)
    for b in (run, lp):
        for blk, t in b.calls_to(LEAK):
            tys = " ".join(t.get("arg_tys", []))
            if "TcpListener" in tys or "Incoming" in tys:
                chk.ob("R4.listener_closed", b.path, f"listener leaked by {t['callee'].split('::')[-1]}", False,
                       "the listening socket is never closed", where=b.where(blk), cfg=cfg)


def _mentions(x, l):
    if isinstance(x, dict):
        if x.get("l") == l and "p" in x:
            return True
        return any(_mentions(v, l) for v in x.values())
    if isinstance(x, list):
        return any(_mentions(v, l) for v in x)
    return False


def _uses_of(body, l):
    """Statements / call arguments that read local l (drops and storage markers are not uses)."""
    out = []
    for b, blk in enumerate(body.blocks):
        for st in blk["stmts"]:
            if "rv" in st and _mentions(st["rv"], l):
                out.append((b, "stmt"))
        t = blk["term"]
        if t and t["k"] == "call" and (_mentions(t.get("args"), l) or _mentions(t.get("func"), l)):
            out.append((b, "call"))
        if t and t["k"] in ("switch", "yield", "assert") and _mentions({k: v for k, v in t.items() if k not in ("targets",)}, l):
            out.append((b, t["k"]))
    return out


def _closure_op(parent, closure, field):
    for blk in parent.blocks:
        for s in blk["stmts"]:
            rv = s.get("rv")
            if rv and rv.get("k") == "agg" and rv.get("def") == closure.path and field < len(rv["ops"]):
                return rv["ops"][field]
    return None


def loopback_table(chk, prog, cfg):
    fn = "humphrey::app::unspecified_socket_to_loopback"
    b = prog.bodies.get(fn)
    chk.floor(f"unspecified_socket_to_loopback [{cfg}]", 1 if b else 0, 1)
    if not b:
        return
    sets = b.calls_to(r"SocketAddr::set_ip$")
    chk.floor("set_ip sites", len(sets), 1)
    # every IpAddr built in this function (the values set_ip can receive), with the guards of the block that builds it
    seenv = {}
    built = []
    for bi, blk_ in enumerate(b.blocks):
        for st_ in blk_["stmts"]:
            rv = st_.get("rv")
            if rv and rv.get("k") == "agg" and rv.get("adt", "").endswith("net::IpAddr") and rv.get("variant") in ("V4", "V6"):
                built.append((bi, rv["variant"], core.describe(prog, b, rv["ops"][0])))
    chk.floor("loopback address constructions", len(built), 2)

    def is_loopback(fam_, d):
        if d[0] == "call" and d[1].endswith("Ipv4Addr::new" if fam_ == "V4" else "Ipv6Addr::new"):
            nums = [x[1] for x in d[2] if x[0] == "lit"]
            return nums == ([127, 0, 0, 1] if fam_ == "V4" else [0, 0, 0, 0, 0, 0, 0, 1])
        txt = str(d)
        return ("Ipv4Addr::LOCALHOST" in txt) if fam_ == "V4" else ("Ipv6Addr::LOCALHOST" in txt)
    for bi, fam_, d in built:
        gs = core.guards_dominating(prog, b, bi)
        unspec = any(lab == "true" and desc_contains(dd, lambda y: y[0] == "call" and y[1].endswith("is_unspecified")) for s, lab, dd, info in gs)
        fam = [lab for s, lab, dd, info in gs if lab in ("V4", "V6")]
        chk.ob("R3.loopback", fn, f"set_ip only for unspecified addresses [{fam}]", unspec, "a specific bind address is rewritten", where=b.where(bi), cfg=cfg)
        seenv[fam_] = d
        chk.ob("R3.loopback", fn, f"{fam_} unspecified -> loopback of the same family", is_loopback(fam_, d) and set(fam) == {fam_},
               f"under arm {fam} the address is set to {fam_}({core.short(str(d))[:60]})", where=b.where(bi), cfg=cfg)
    for blk, t in sets:
        d = core.describe(prog, b, t["args"][1])
        only_built = desc_contains(d, lambda y: y[0] == "variant" and y[1].endswith("net::IpAddr")) and \
            not desc_contains(d, lambda y: y[0] == "param")
        chk.ob("R3.loopback", fn, "set_ip receives only the loopback addresses built here", only_built, f"set_ip({core.short(str(d))[:100]})", where=b.where(blk), cfg=cfg)
    chk.ob("R3.loopback", fn, "both families handled", set(seenv) == {"V4", "V6"}, f"handled {sorted(seenv)}", cfg=cfg)
    ports = b.calls_to(r"SocketAddr::set_port$")
    chk.ob("R3.loopback", fn, "port preserved", not ports, "the port is rewritten", cfg=cfg)
    # returned value is the resolved input address
    d = core.describe(prog, b, 0)
    chk.ob("R3.loopback", fn, "returns the (possibly rewritten) first resolved address of the argument",
           desc_contains(d, lambda y: y[0] == "call" and y[1].endswith("to_socket_addrs")) and desc_contains(d, lambda y: y[0] == "param" and y[1] == 1), f"returns {core.short(str(d))[:120]}", cfg=cfg)


def tokio_run(chk, prog, cfg, fn):
    co = prog.impl_body(fn)
    chk.floor(f"{core.short(fn)} [{cfg}]", 1 if co else 0, 1)
    if not co:
        return
    subs = prog.closures_of(co.path)
    sd = [c for c in subs if c.calls_to(r"CancellationToken::cancelled$")]
    chk.floor(f"shutdown future in {core.short(fn)} [{cfg}]", len(sd), 1)
    sel = [c for c in subs if c.calls_to(r"TcpListener::accept::\{closure#0\}$") or c.calls_to(r"poll_budget_available$")]
    chk.floor(f"select closure in {core.short(fn)} [{cfg}]", len(sel), 1)
    if not sd or not sel:
        return
    s0, sl = sd[0], sel[0]
    for blk, t in s0.calls_to(r"CancellationToken::cancelled$"):
        d = describe(prog, s0, t["args"][0])
        st = prog.structs.get("humphrey::tokio::app::App", {}).get("fields", [])
        idx = next((i for i, x in enumerate(st) if x["name"] == "shutdown"), None)
        ok = desc_contains(d, lambda y: (y[0] == "field" and y[2] == idx) or (y[0] == "upvar" and "shutdown" in str(y[2])))
        chk.ob("R1.tokio_cancel", s0.path, "the shutdown future awaits self.shutdown.cancelled()", ok, f"cancelled() is called on {core.short(str(d))[:100]}", cfg=cfg)
    # which Out variant the select closure returns when the shutdown future is ready
    polls = [blk for blk, t in sl.calls() if (t.get("resolved") or "") == s0.path]
    chk.floor("select polls the shutdown future", len(polls), 1)
    variant = None
    for pb in polls:
        for (s, tgt) in some_edge_of(prog, sl, pb, "Ready"):
            seen = sl.reachable([tgt], stop=set(b for b, t in sl.calls()))
            for b2 in seen:
                for st_ in sl.blocks[b2]["stmts"]:
                    rv = st_.get("rv")
                    if rv and rv.get("k") == "agg" and rv.get("adt", "").endswith("__tokio_select_util::Out"):
                        variant = rv["variant"]
    chk.ob("R1.tokio_cancel", sl.path, "select maps 'shutdown future ready' to its own branch", variant is not None, "", cfg=cfg)
    accepts = [blk for blk, t in co.calls_to(r"TcpListener::accept$|future::poll_fn$")]
    found = False
    for s in range(len(co.blocks)):
        t = co.term(s)
        if t and t["k"] == "switch":
            info = switch_info(prog, co, s)
            if info and info["kind"] == "enum" and "__tokio_select_util::Out" in (info.get("src_ty") or "") and variant in info["edges"]:
                found = True
                tgt = info["edges"][variant]
                # (on the product with the finite store: `let ev = select! { .. => Event::Shutdown, .. }; match ev { Shutdown => break .. }`
                # keeps the branch in an enum local between the select and the break)
                from .. import absreach as _ar
                feas = _ar.feasible_from(co, [tgt], prog)
                rets = [r for r in core.ok_return_blocks(co, "Ok") if r in feas]
                loops_back = any(a in feas for a in accepts)
                chk.ob("R1.tokio_cancel", co.path, "the cancelled branch leaves the accept loop with Ok(())", bool(rets) and not loops_back,
                       "after cancellation the accept loop continues", where=co.where(s), cfg=cfg)
    chk.ob("R1.tokio_cancel", co.path, "run() branches on the select outcome", found, "", cfg=cfg)
    # ... and nothing else ends the accept loop: until the token is cancelled the server keeps accepting, whatever accept() reports
    cancel_edges = []
    for s in range(len(co.blocks)):
        t = co.term(s)
        if t and t["k"] == "switch":
            info = switch_info(prog, co, s)
            if info and info["kind"] == "enum" and "__tokio_select_util::Out" in (info.get("src_ty") or "") and variant in info["edges"]:
                cancel_edges.append((s, info["edges"][variant]))
    if cancel_edges and accepts:
        in_loop = [a for a in accepts if a in co.reachable(co.succs(a))]
        w = core.must_pass(co, in_loop, core.return_blocks(co), through_edges=cancel_edges) if in_loop else None
        chk.ob("R1.only_flag_leaves", co.path, "accept loop -> return of run() only through the cancelled branch", w is None,
               "the tokio accept loop can end although the token was not cancelled (e.g. on an accept() error): the server stops serving before any signal", path=w, cfg=cfg)
    # R6: the accept cycle suspends only in the select (whose shutdown branch is always polled), and makes no blocking std call: a
    # second await (`stream.peek(..).await`, a sleep, a permit) parks run() where cancellation is not looked at
    in_loop = [a for a in accepts if a in co.reachable(co.succs(a))]
    cyc = set()
    for a in in_loop:
        cyc |= {n for n in co.reachable(co.succs(a)) if a in co.reachable([n])}
    preds = co.pred_map()
    ny = 0
    for y in sorted(cyc):
        t = co.term(y)
        if not t:
            continue
        if t["k"] == "call" and core.call_matches(t, ACCEPT_BLOCKING):
            chk.ob("R6.accept_never_blocks", co.path, f"blocking call {core.short(t['callee'])} in the accept loop of the async run()", False,
                   f"{t['callee']} blocks the runtime thread that polls the cancellation branch", where=co.where(y), cfg=cfg)
        if t["k"] != "yield":
            continue
        ny += 1
        work, seen_, polled = [y], set(), []
        while work:
            x = work.pop()
            for p_ in preds[x]:
                if p_ in seen_:
                    continue
                seen_.add(p_)
                tp = co.term(p_)
                if tp and tp["k"] == "call":
                    polled.append(tp.get("resolved") or tp.get("callee") or "?")
                else:
                    work.append(p_)
        ok = bool(polled) and all(core.re.search(r"PollFn<F> as (std::future::|futures::|core::future::)?Future>::poll$", x) for x in polled)
        chk.ob("R6.accept_never_blocks", co.path, "the accept loop suspends only in the select that also polls the shutdown future", ok,
               f"the loop also awaits {[core.short(x) for x in polled if 'PollFn' not in x][:3]}: while that future is pending a cancellation is not acted on and run() does not return",
               where=co.where(y), cfg=cfg)
    chk.floor(f"suspension points in the tokio accept loop [{cfg}]", ny, 1)
    # R7: connection tasks are detached (tokio::spawn, JoinHandle dropped): leaving run() does not abort responses in flight
    sp = co.calls_to(r"^tokio::spawn$|^tokio::task::spawn$")
    chk.floor("tokio::spawn dispatch in run()", len(sp), 1)
    for blk, t in sp:
        dest = t.get("dest")
        dl = dest["l"] if dest else None
        used = _uses_of(co, dl) if dl is not None else [("?", "no destination")]
        chk.ob("R7.detached", co.path, "the JoinHandle of a connection task is dropped at once (detached task)", not used,
               f"the JoinHandle is kept ({len(used)} use(s)): the task's fate is tied to run()", where=co.where(blk), cfg=cfg)
    badl = sorted(set(co.local_ty(i) for i in range(len(co.locals)) if core.re.search(r"JoinSet|AbortHandle|LocalSet", co.local_ty(i) or "")))
    badc = [(blk, t) for blk, t in co.calls() if core.call_matches(t, DETACH_BREAKERS)]
    chk.ob("R7.detached", co.path, "no abort-on-drop task container (JoinSet / AbortHandle / LocalSet) in run()", not badl and not badc,
           f"run() holds {[core.short(x)[:60] for x in badl]} / calls {[core.short(t['callee']) for _, t in badc][:4]}: connection tasks are aborted when run() returns, truncating responses in flight",
           where=co.where(badc[0][0]) if badc else "", cfg=cfg)
    for blk, t in co.calls_to(LEAK):
        if "TcpListener" in " ".join(t.get("arg_tys", [])):
            chk.ob("R4.listener_closed", co.path, "listener leaked", False, "", where=co.where(blk), cfg=cfg)
    binds = co.calls_to(r"tokio::net::TcpListener::bind$")
    moved = [c for c in subs if any("TcpListener" in (u.get("name") or "") for u in c.upvars)]
    chk.ob("R4.listener_closed", co.path, "the listener is a local of run() (dropped when it returns)", bool(binds), "", cfg=cfg)


def run(chk):
    chk.explanation = (
        "Static decision of C20's structural clauses: the accept loop loads the shutdown flag on every iteration between accept and dispatch, its "
        "true edge leaves the loop, false keeps serving, and thread_pool.stop() post-dominates the loop; run() sets the same flag, then connects to the "
        "loopback form of its own address (V4->127.0.0.1, V6->::1, port kept) to wake the blocked accept, then joins the thread that owns the listener "
        "before returning; the listener is never leaked; tokio: select has a cancelled() branch that breaks with Ok(()). [A], run_tls in [D], tokio in [B].")
    chk.not_decided = "promptness; in-flight responses; behaviour of a blocking connection_condition"
    chk.assumptions = ["rustc type checking / MIR construction / callee resolution", "a TcpListener is closed when its owner is dropped", "tokio::select! expansion of tokio 1.x (Out enum, poll_fn closure)"]
    a = chk.use(core.load("A", fresh=(chk.tier == "thorough")))
    threaded_run(chk, a, "A", "humphrey::app::App::<State>::run")
    loopback_table(chk, a, "A")
    from . import c08
    c08.join_rules(chk, a, "R5.pool_drop")
    # requests accepted before the signal sit in the pool's queue in front of the Shutdown message: every queued task is still run
    c08.isolation_rules(chk, a)
    # after a handler panic the recovery thread joins `threads[id]` under the pool's lock; with ids that are not the vector's indices it joins a
    # live worker and keeps the lock, and the pool's Drop — on the accept thread that run() joins — waits for that lock for ever
    from . import shared as _sh
    _rf = _sh.RuleFilter(chk, {"R4.ids_are_indices": "R5.ids_are_indices"})
    c08.ids_are_indices(_rf, a)
    chk.floor("worker-id obligations borrowed from C08", _rf.forwarded, 1)
    d = chk.use(core.load("D", fresh=(chk.tier == "thorough")))
    threaded_run(chk, d, "D", "humphrey::app::App::<State>::run_tls")
    b = chk.use(core.load("B", fresh=(chk.tier == "thorough")))
    tokio_run(chk, b, "B", "humphrey::tokio::app::App::<State>::run")

"""Fact extraction orchestration: runs hv-driver over /repo for a build configuration.

Nothing of Humphrey is executed: `cargo +nightly check` only type-checks the workspace with the
driver injected as RUSTC_WORKSPACE_WRAPPER.  Facts are cached per (config, digest of /repo sources);
any edit of /repo changes the digest and forces re-extraction.
"""
import fcntl
import hashlib
import json
import os
import shutil
import subprocess
import sys
import time

VERIF = os.path.dirname(os.path.dirname(os.path.abspath(__file__)))
REPO = os.environ.get("HV_REPO", "/repo")
DRIVER = os.path.join(VERIF, "driver", "target", "debug", "hv-driver")
BUILD = os.path.join(VERIF, ".build")
CACHE = os.path.join(VERIF, ".cache")

# name -> (cargo args, expected fact files)
CONFIGS = {
    "A": (["--workspace"],
          ["humphrey.json", "humphrey_ws.json", "humphrey_json.json", "humphrey_json_derive.json",
           "humphrey_server.json", "humphrey_auth.json", "humphrey.bin.json"]),
    "B": (["-p", "humphrey", "--features", "tokio"], ["humphrey.json"]),
    "C": (["-p", "humphrey_server", "--features", "plugins"], ["humphrey_server.json"]),
    "D": (["-p", "humphrey_server", "--features", "tls"], ["humphrey_server.json", "humphrey.json"]),
    "E": (["-p", "humphrey_auth", "--features", "json"], ["humphrey_auth.json"]),
}

MEMBER_PREFIXES = ("humphrey",)


def sysroot():
    return subprocess.check_output(["rustc", "+nightly", "--print", "sysroot"], text=True).strip()


def repo_digest(repo=None):
    repo = repo or REPO
    h = hashlib.sha256()
    files = []
    for root, dirs, fs in os.walk(repo):
        dirs[:] = [d for d in dirs if d not in ("target", ".git", "node_modules")]
        for f in fs:
            if f.endswith(".rs") or f in ("Cargo.toml", "Cargo.lock"):
                files.append(os.path.join(root, f))
    files.sort()
    for f in files:
        h.update(os.path.relpath(f, repo).encode())
        h.update(b"\0")
        with open(f, "rb") as fh:
            h.update(fh.read())
        h.update(b"\0")
    # the driver itself is part of the key
    try:
        with open(DRIVER, "rb") as fh:
            h.update(hashlib.sha256(fh.read()).digest())
    except OSError:
        pass
    return h.hexdigest()[:24], len(files)


def _env(out_dir, target_dir):
    env = dict(os.environ)
    env["LD_LIBRARY_PATH"] = os.path.join(sysroot(), "lib") + ":" + env.get("LD_LIBRARY_PATH", "")
    env["RUSTFLAGS"] = "-Zmir-opt-level=0 -Awarnings"
    env["RUSTC_WORKSPACE_WRAPPER"] = DRIVER
    env["CARGO_TARGET_DIR"] = target_dir
    env["CARGO_NET_OFFLINE"] = "true"
    env["HV_OUT"] = out_dir
    env["CARGO_INCREMENTAL"] = "0"  # incremental reuse would skip the mir_promoted provider
    env.pop("RUSTC_WRAPPER", None)
    return env


def _clear_member_fingerprints(target_dir):
    fp = os.path.join(target_dir, "debug", ".fingerprint")
    if os.path.isdir(fp):
        for d in os.listdir(fp):
            if d.startswith(MEMBER_PREFIXES):
                shutil.rmtree(os.path.join(fp, d), ignore_errors=True)


def extract(config, repo=None, fresh=False, target_dir=None, quiet=True, reader=None):
    """Return (facts_dir, digest, info). Re-extracts unless a cache entry for the digest exists.

    `reader(facts_dir, digest, info)`, when given, is called while the per-configuration lock is still held (downgraded to a shared lock) and
    its result is returned instead: checks that run side by side — one of them re-extracting (`fresh`) or pruning the cache — never read a
    facts directory that another process is deleting or rewriting."""
    repo = repo or REPO
    digest, nfiles = repo_digest(repo)
    os.makedirs(CACHE, exist_ok=True)
    os.makedirs(BUILD, exist_ok=True)
    out_dir = os.path.join(CACHE, "facts", f"{config}-{digest}")
    stamp = os.path.join(out_dir, "OK")
    lock_path = os.path.join(CACHE, f"lock-{config}")
    with open(lock_path, "a") as lock:
        fcntl.flock(lock, fcntl.LOCK_EX)
        res = _extract_locked(config, repo, fresh, target_dir, digest, nfiles, out_dir, stamp)
        if reader is None:
            return res
        for _ in range(3):
            fcntl.flock(lock, fcntl.LOCK_SH)      # (the conversion may let another writer in first: it then leaves a complete directory)
            if os.path.exists(stamp):
                return reader(*res)
            fcntl.flock(lock, fcntl.LOCK_EX)
            res = _extract_locked(config, repo, False, target_dir, digest, nfiles, out_dir, stamp)
        fcntl.flock(lock, fcntl.LOCK_EX)
        res = _extract_locked(config, repo, False, target_dir, digest, nfiles, out_dir, stamp)
        return reader(*res)


def _extract_locked(config, repo, fresh, target_dir, digest, nfiles, out_dir, stamp):
    if True:
        if os.path.exists(stamp) and not fresh:
            with open(stamp) as fh:
                info = json.load(fh)
            info["cached"] = True
            return out_dir, digest, info
        if os.path.isdir(out_dir):
            shutil.rmtree(out_dir)
        os.makedirs(out_dir)
        tdir = target_dir or os.path.join(BUILD, config)
        os.makedirs(tdir, exist_ok=True)
        _clear_member_fingerprints(tdir)
        args, expected = CONFIGS[config]
        t0 = time.time()
        cmd = ["cargo", "+nightly", "check", "--offline"] + args
        p = subprocess.run(cmd, cwd=repo, env=_env(out_dir, tdir), stdout=subprocess.PIPE,
                           stderr=subprocess.STDOUT, text=True)
        wall = time.time() - t0
        if p.returncode != 0:
            sys.stderr.write(p.stdout[-6000:])
            raise RuntimeError(f"extraction failed for config {config} (cargo exit {p.returncode})")
        missing = [f for f in expected if not os.path.exists(os.path.join(out_dir, f))]
        if missing:
            sys.stderr.write(p.stdout[-3000:])
            raise RuntimeError(f"extraction for config {config} did not rewrite {missing} (fail closed)")
        info = {"config": config, "digest": digest, "source_files": nfiles, "wall_s": round(wall, 2),
                "cargo_args": args, "files": expected, "cached": False}
        with open(stamp, "w") as fh:
            json.dump(info, fh)
        _prune_cache(keep=os.path.basename(out_dir), config=config)
        return out_dir, digest, info


def _prune_cache(keep, config, max_keep=3):
    d = os.path.join(CACHE, "facts")
    ents = [e for e in os.listdir(d) if e.startswith(config + "-") and e != keep]
    ents.sort(key=lambda e: os.path.getmtime(os.path.join(d, e)))
    while len(ents) >= max_keep:
        shutil.rmtree(os.path.join(d, ents.pop(0)), ignore_errors=True)


def prebuild(configs=("A", "B", "C", "D", "E")):
    """setup: build the driver and warm dependency artefacts for every configuration."""
    subprocess.check_call(["cargo", "build", "--offline"], cwd=os.path.join(VERIF, "driver"),
                          env=dict(os.environ, CARGO_NET_OFFLINE="true"))
    for c in configs:
        out, dg, info = extract(c, fresh=True)
        print(f"config {c}: {info['wall_s']}s -> {out}")


if __name__ == "__main__":
    prebuild(sys.argv[1:] or ("A", "B", "C", "D", "E"))


def extract_crate(crate_dir, tag, fresh=True):
    """Run the driver over a stand-alone witness crate (its own workspace root). Returns facts dir."""
    out_dir = os.path.join(CACHE, "facts", f"W-{tag}")
    if os.path.isdir(out_dir):
        shutil.rmtree(out_dir)
    os.makedirs(out_dir)
    tdir = os.path.join(BUILD, "W-" + tag.split("-")[0])
    os.makedirs(tdir, exist_ok=True)
    fp = os.path.join(tdir, "debug", ".fingerprint")
    if os.path.isdir(fp):
        for d in os.listdir(fp):
            if d.startswith("hv_"):
                shutil.rmtree(os.path.join(fp, d), ignore_errors=True)
    t0 = time.time()
    p = subprocess.run(["cargo", "+nightly", "check", "--offline"], cwd=crate_dir, env=_env(out_dir, tdir),
                       stdout=subprocess.PIPE, stderr=subprocess.STDOUT, text=True)
    if p.returncode != 0:
        sys.stderr.write(p.stdout[-6000:])
        raise RuntimeError(f"witness crate {crate_dir} does not compile (cargo exit {p.returncode})")
    files = [f for f in os.listdir(out_dir) if f.endswith(".json")]
    if not files:
        raise RuntimeError(f"driver wrote no facts for witness crate {crate_dir} (fail closed)")
    return out_dir, round(time.time() - t0, 2)

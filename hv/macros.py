"""R-MACRO: lints over `macro_rules!` token trees dumped by the driver."""


def arms(tts):
    """[(matcher_tts, transcriber_tts)] of a macro_rules body."""
    out = []
    i = 0
    while i < len(tts):
        m = tts[i]
        if isinstance(m, dict) and i + 2 < len(tts) + 1 and i + 1 < len(tts) and tts[i + 1] == "=>":
            tr = tts[i + 2] if i + 2 < len(tts) else None
            if isinstance(tr, dict):
                out.append((m["tts"], tr["tts"]))
            i += 3
            if i < len(tts) and tts[i] == ";":
                i += 1
        else:
            i += 1
    return out


def bound_vars(tts, depth=0, out=None):
    """Metavariables bound by a matcher: {name: (fragment, repetition depth)}."""
    out = {} if out is None else out
    i = 0
    while i < len(tts):
        t = tts[i]
        if t == "$" and i + 1 < len(tts):
            nxt = tts[i + 1]
            if isinstance(nxt, dict) and nxt["d"] == "(":
                bound_vars(nxt["tts"], depth + 1, out)
                i += 2
                # optional separator then repetition operator
                while i < len(tts) and tts[i] not in ("*", "+", "?"):
                    i += 1
                i += 1
                continue
            if isinstance(nxt, str) and i + 3 < len(tts) + 1 and i + 2 < len(tts) and tts[i + 2] == ":":
                out[nxt] = (tts[i + 3] if i + 3 < len(tts) else None, depth)
                i += 4
                continue
        if isinstance(t, dict):
            bound_vars(t["tts"], depth, out)
        i += 1
    return out


def used_vars(tts, depth=0, out=None):
    """Metavariable uses in a transcriber: {name: set(depths)}."""
    out = {} if out is None else out
    i = 0
    while i < len(tts):
        t = tts[i]
        if t == "$" and i + 1 < len(tts):
            nxt = tts[i + 1]
            if isinstance(nxt, dict) and nxt["d"] == "(":
                used_vars(nxt["tts"], depth + 1, out)
                i += 2
                while i < len(tts) and tts[i] not in ("*", "+", "?"):
                    i += 1
                i += 1
                continue
            if isinstance(nxt, str) and nxt != "crate":
                out.setdefault(nxt, set()).add(depth)
                i += 2
                continue
        if isinstance(t, dict):
            used_vars(t["tts"], depth, out)
        i += 1
    return out


def render(tts, maxlen=80):
    def r(t):
        if isinstance(t, dict):
            close = {"(": ")", "[": "]", "{": "}"}.get(t["d"], "")
            return t["d"] + " ".join(r(x) for x in t["tts"]) + close
        return t
    s = " ".join(r(t) for t in tts)
    return s if len(s) <= maxlen else s[:maxlen] + ".."


def shape(tts):
    """Coarse, name-free shape of a matcher (for sibling comparison): metavars -> $frag, groups kept."""
    out = []
    i = 0
    while i < len(tts):
        t = tts[i]
        if t == "$" and i + 1 < len(tts):
            nxt = tts[i + 1]
            if isinstance(nxt, dict) and nxt["d"] == "(":
                inner = shape(nxt["tts"])
                i += 2
                sep = []
                while i < len(tts) and tts[i] not in ("*", "+", "?"):
                    sep.append(tts[i])
                    i += 1
                op = tts[i] if i < len(tts) else "*"
                i += 1
                out.append("$(" + " ".join(inner) + ")" + "".join(sep) + op)
                continue
            if isinstance(nxt, str) and i + 2 < len(tts) and tts[i + 2] == ":":
                out.append("$" + str(tts[i + 3]))
                i += 4
                continue
        if isinstance(t, dict):
            close = {"(": ")", "[": "]", "{": "}"}.get(t["d"], "")
            out.append(t["d"] + " ".join(shape(t["tts"])) + close)
        else:
            out.append(t)
        i += 1
    return out

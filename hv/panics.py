"""R-PANIC: panic-site inventory over the call graph of a set of entry points, with mechanical discharge."""
import json
import os
import re

from . import core
from .core import describe, desc_contains, op_local

VERIF = os.path.dirname(os.path.dirname(os.path.abspath(__file__)))
ALLOW = os.path.join(VERIF, "allow", "panic_sites.json")

PANIC_CALLS = [
    (r"^(core|std)::panicking::|^std::rt::panic_fmt$|^std::rt::begin_panic|^core::panicking::panic", "panic"),
    (r"^std::option::Option::<T>::(unwrap|expect)$", "unwrap"),
    (r"^std::result::Result::<T, E>::(unwrap|expect|unwrap_err|expect_err)$", "unwrap"),
    (r"ops::Index<.*>>::index$|ops::IndexMut<.*>>::index_mut$|^std::ops::Index::index$|^std::ops::IndexMut::index_mut$", "index"),
    (r"^std::vec::Vec::<T, A>::(remove|insert|swap_remove|drain|split_off|extend_from_within)$", "vec-op"),
    (r"^std::string::String::(remove|insert|insert_str|split_off|drain|replace_range|truncate)$", "string-op"),
    (r"^core::str::<impl str>::(split_at|split_at_mut)$", "str-split_at"),
    (r"^core::slice::<impl \[T\]>::(split_at|split_at_mut|copy_from_slice|clone_from_slice|swap|chunks|chunks_exact|windows|rotate_left|rotate_right|copy_within|split_first_chunk)$", "slice-op"),
    (r"^std::cell::RefCell::<T>::(borrow|borrow_mut)$", "refcell"),
    (r"^std::collections::VecDeque::<T, A>::(swap|insert|split_off|range|drain)$", "deque-op"),
    (r"<std::time::(Instant|Duration|SystemTime) as std::ops::(Add|Sub|AddAssign|SubAssign|Mul|Div)", "time-arith"),
    (r"^core::num::<impl [iu](8|16|32|64|128|size)>::(pow|abs|div_euclid|rem_euclid|next_power_of_two|ilog|ilog2|ilog10)$", "int-op"),
    (r"^core::num::<impl [iu](8|16|32|64|128|size)>::from_str_radix$", "radix"),
    (r"^std::iter::Iterator::step_by$", "step_by"),
    (r"^std::process::(exit|abort)$", "exit"),
    (r"^core::char::methods::<impl char>::(from_digit|to_digit)$", "char-digit"),
    (r"^std::thread::spawn$|Builder::spawn$", "spawn"),
]
PANIC_RX = [(re.compile(p), k) for p, k in PANIC_CALLS]


_WRAP = re.compile(r"\b(clone|to_string|to_owned|deref|deref_mut|as_ref|as_str|as_mut|borrow|as_slice|as_bytes)\(([^()]*)\)")


def norm_fingerprint(fp):
    """Fingerprint with reference conversions / copies of an operand peeled off (`to_string(deref(x))`, `clone(x)` -> `x`):
    a reviewed site stays the same site when the value is copied in a different but equivalent way."""
    prev = None
    while prev != fp:
        prev = fp
        fp = _WRAP.sub(lambda m: m.group(2), fp)
    # closures are numbered by position in their function: moving an unrelated closure out of (or into) it renumbers the rest
    fp = re.sub(r"\{closure#\d+\}", "{closure}", fp)
    return fp


class AllowTable(dict):
    """fingerprint -> entry; a lookup that misses falls back to the normalised fingerprint."""

    def __init__(self, entries):
        super().__init__(entries)
        self._norm = {}
        for k, v in entries.items():
            self._norm.setdefault(norm_fingerprint(k), v)

    def __contains__(self, k):
        return dict.__contains__(self, k) or norm_fingerprint(k) in self._norm

    def __getitem__(self, k):
        if dict.__contains__(self, k):
            return dict.__getitem__(self, k)
        return self._norm[norm_fingerprint(k)]


def load_allow():
    try:
        with open(ALLOW) as fh:
            d = json.load(fh)
    except FileNotFoundError:
        return AllowTable({})
    return AllowTable({e["fingerprint"]: e for e in d.get("sites", [])})


def short_desc(d, depth=0, names=True):
    """Compact, position-free rendering of a description tree."""
    if not isinstance(d, tuple) or not d:
        return "?"
    k = d[0]
    if depth > 5:
        return ".."
    if k == "lit":
        v = d[1]
        if isinstance(v, bytes):
            return "b" + repr(v.decode("latin1"))
        return repr(v)
    if k == "variant":
        return f"{d[2]}({','.join(short_desc(x, depth + 1) for x in d[3])})" if d[3] else d[2]
    if k == "call":
        name = d[1]
        m = re.search(r"([A-Za-z_0-9]+)(<[^>]*>)?>?::([a-z_A-Z0-9]+)$", name)
        sn = m.group(3) if m else name.split("::")[-1]
        return f"{sn}({','.join(short_desc(x, depth + 1) for x in d[2])})"
    if k == "field":
        return f"{short_desc(d[1], depth + 1)}.{d[2]}"
    if k == "index":
        return f"{short_desc(d[1], depth + 1)}[{short_desc(d[2], depth + 1)}]"
    if k in ("param", "local"):
        return str(d[2]) if d[2] else f"_{d[1]}"
    if k == "upvar":
        return str(d[2]) if d[2] else f"upvar{d[1]}"
    if k == "multi":
        return str(d[2]) if d[2] else "phi(" + "|".join(sorted(set(short_desc(x, depth + 1) for x in d[1]))) + ")"
    if k == "bin":
        return f"({short_desc(d[2], depth + 1)} {d[1]} {short_desc(d[3], depth + 1)})"
    if k == "un":
        return f"{d[1]}({short_desc(d[2], depth + 1)})"
    if k in ("tuple", "array"):
        return "[" + ",".join(short_desc(x, depth + 1) for x in d[1]) + "]"
    if k == "closure":
        return "closure"
    if k == "const":
        return d[1].split("::")[-1]
    if k == "fn":
        return d[1].split("::")[-1]
    if k == "discr":
        return f"discr({short_desc(d[1], depth + 1)})"
    return k


class Site:
    def __init__(self, body, block, kind, what, operands, term):
        self.body = body
        self.block = block
        self.kind = kind          # assert:<akind> | call:<class>
        self.what = what          # callee or assert kind
        self.operands = operands  # descriptions
        self.term = term
        self.discharge = None
        self.reason = None

    @property
    def fingerprint(self):
        ops = ",".join(short_desc(o) for o in self.operands)
        return f"{self.body.path}|{self.kind}|{self.what}|{ops}"

    def where(self):
        return self.body.where(self.block)


def reach(prog, entries, exclude=()):
    """Local bodies reachable from the entries (closures, local callees, dyn calls -> all impls).
    Bodies whose path starts with an `exclude` prefix are cut out of the graph."""
    def extra(b):
        out = []
        for _, t in b.calls():
            if t.get("virtual") or (t.get("trait") and not t.get("resolved_local") and (t.get("trait") or "").startswith("humphrey")):
                tr_item = t.get("callee")
                for p, f in prog.fns.items():
                    if f.get("trait_item") == tr_item and p in prog.bodies:
                        out.append(p)
        return out
    got = prog.reach_bodies(entries, extra_edges=extra)
    if exclude:
        # recompute without walking through excluded bodies
        seen = set()
        work = list(entries)
        while work:
            p = work.pop()
            if p in seen or p not in prog.bodies or any(p.startswith(x) or ("<" + x) in p for x in exclude):
                continue
            seen.add(p)
            work.extend(prog.local_callees(prog.bodies[p]))
            work.extend(extra(prog.bodies[p]))
        return seen
    return got


def sites_of(prog, body):
    out = []
    for b, blk in enumerate(body.blocks):
        if blk["cleanup"]:
            continue
        t = blk["term"]
        if not t:
            continue
        if t["k"] == "assert":
            ak = t["akind"]
            if ak.startswith("other"):
                continue
            ops = [describe(prog, body, o) for o in t["ops"]]
            out.append(Site(body, b, "assert", ak, ops, t))
        elif t["k"] == "call":
            names = core.callee_names(t)
            exp = t.get("exp") or ""
            for rx, cls in PANIC_RX:
                if any(rx.search(n) for n in names):
                    if cls == "panic" and ("format_args" in exp and "panic" not in exp and "assert" not in exp and "unreachable" not in exp and "todo" not in exp and "unimplemented" not in exp):
                        break
                    ops = [describe(prog, body, a) for a in t["args"]]
                    what = t.get("callee") or "?"
                    if cls == "panic":
                        # label by macro
                        m = re.search(r"(assert_eq|assert_ne|assert|unreachable|panic|todo|unimplemented|debug_assert)", exp)
                        what = (m.group(1) + "!") if m else what
                        ops = []
                    out.append(Site(body, b, "call:" + cls, what, ops, t))
                    break
    return out


def reachable_from_entry(body, block):
    return block in body.reachable([0])


# ---- facts ------------------------------------------------------------------------------------

CMP = {"Lt": "<", "Le": "<=", "Gt": ">", "Ge": ">=", "Eq": "==", "Ne": "!="}
NEG = {"<": ">=", "<=": ">", ">": "<=", ">=": "<", "==": "!=", "!=": "=="}
FLIP = {"<": ">", "<=": ">=", ">": "<", ">=": "<=", "==": "==", "!=": "!="}

_WRAPPERS = {}


def assert_wrappers(prog):
    """Local fns `fn w(cond: bool) -> Result<_, _>` that return Ok iff cond (e.g. safe_assert, quiet_assert)."""
    key = id(prog)
    if key in _WRAPPERS:
        return _WRAPPERS[key]
    out = set()
    for p, b in prog.bodies.items():
        if b.kind != "fn" or "promoted" in p or b.argc < 1:
            continue
        if b.local_ty(1) != "bool" or "Result<" not in b.local_ty(0):
            continue
        # `cond.then_some(()).ok_or(err)` (also then(..) / ok_or_else): Ok exactly when cond
        d0 = core.describe(prog, b, 0)
        if isinstance(d0, tuple) and d0[0] == "call" and core.re.search(r"Option::<T>::ok_or(_else)?$", d0[1]) and d0[2]:
            inner = d0[2][0]
            if isinstance(inner, tuple) and inner[0] == "call" and core.re.search(r"bool::then(_some)?$", inner[1]) and inner[2] and inner[2][0] == ("param", 1, b.local_name(1)):
                out.add(p)
                continue
        oks = core.ok_return_blocks(b, "Ok")
        errs = core.ok_return_blocks(b, "Err")
        if not oks or not errs:
            continue
        good = True
        par = ("param", 1, b.local_name(1))

        def holds(gs, truth):
            # the edge of a test of the parameter, or of the Option that `cond.then_some(..)` / `cond.then(..)` made of it
            for s, lab, d, info in gs:
                if lab == ("true" if truth else "false") and d == par:
                    return True
                if lab == ("Some" if truth else "None") and isinstance(d, tuple) and d[0] == "call" and core.re.search(r"bool::then(_some)?$|bool>::then(_some)?$|<impl bool>::then(_some)?$", d[1]) and d[2] and d[2][0] == par:
                    return True
            return False
        for ob in oks:
            if not holds(core.guards_dominating(prog, b, ob), True):
                good = False
        for eb in errs:
            if not holds(core.guards_dominating(prog, b, eb), False):
                good = False
        if good:
            out.add(p)
    _WRAPPERS[key] = out
    return out


def _short_circuit(prog, body, local, depth):
    """`a && b && c` is lowered to a bool local assigned `c` on the path where a and b held and `false` elsewhere: if that local is
    true, the facts dominating the non-constant assignment hold as well (and symmetrically for `||` chains that are false)."""
    if local is None or depth > 3:
        return []
    alld = body.defs().get(local, [])
    ds = [d for d in alld if d[2] == "assign" and not d[3]["pl"]["p"]]
    calls = [d for d in alld if d[2] == "call"]
    if len(alld) < 2 or len(ds) + len(calls) != len(alld):
        return []
    consts = [d for d in ds if d[3]["rv"]["k"] == "use" and d[3]["rv"]["o"].get("k") == "const"]
    rest = [d for d in ds if d not in consts] + calls
    if len(rest) != 1 or not consts or any(d[3]["rv"]["o"].get("v") is not False for d in consts):
        return []
    out = list(bool_facts(prog, body, rest[0][0], depth + 1))
    if rest[0][2] == "call":
        t = rest[0][3]
        out.append((("call", t.get("resolved") or t.get("callee"), [core.describe(prog, body, a) for a in t["args"]], rest[0][0]), True))
        return out
    rv = rest[0][3]["rv"]
    out.append((core.describe_rv(prog, body, rv) if rv["k"] != "use" else core.describe(prog, body, rv["o"]), True))
    if rv["k"] == "use" and core.op_local(rv["o"]) is not None:
        out.extend(_short_circuit(prog, body, core.op_local(rv["o"]), depth + 1))
    return out


def bool_facts(prog, body, blk, depth=0):
    """[(cond_desc, truth)] holding on entry to blk (from dominating switch edges and assert wrappers)."""
    out = []
    wr = assert_wrappers(prog)
    for s, lab, d, info in core.guards_dominating(prog, body, blk):
        if lab in ("true", "false"):
            out.append((d, lab == "true"))
            ts_ = body.term(s) if isinstance(s, int) else None
            if lab == "true" and ts_ and ts_.get("discr") is not None:
                out.extend(_short_circuit(prog, body, core.op_local(ts_["discr"]), depth))
        elif lab in ("Continue", "Ok"):
            # Try::branch(wrapper(cond)) == Continue  /  wrapper(cond) is Ok
            for c in core.desc_calls(d):
                if c[1] in wr and c[2]:
                    out.append((c[2][0], True))
                    if len(c) > 3 and isinstance(c[3], int):
                        t = body.term(c[3])
                        if t and t["k"] == "call" and t["args"]:
                            out.extend(_short_circuit(prog, body, core.op_local(t["args"][0]), depth))
        out.append((("edge", lab, d), True))
    return out


def cmp_facts(prog, body, blk):
    """Normalised comparisons (lhs, op, rhs) that hold at blk; is_empty / contains-style facts as tuples."""
    res = []
    for d, truth in bool_facts(prog, body, blk):
        res.extend(_norm(d, truth))
    return res


def _norm(d, truth, depth=0):
    if not isinstance(d, tuple) or not d or depth > 6:
        return []
    if d[0] == "un" and d[1] == "Not":
        return _norm(d[2], not truth, depth + 1)
    if d[0] == "bin" and d[1] in CMP:
        op = CMP[d[1]]
        if not truth:
            op = NEG[op]
        return [(_strip(d[2]), op, _strip(d[3]))]
    if d[0] == "bin" and d[1] in ("BitAnd",) and truth:
        return _norm(d[2], True, depth + 1) + _norm(d[3], True, depth + 1)
    if d[0] == "bin" and d[1] in ("BitOr",) and not truth:
        return _norm(d[2], False, depth + 1) + _norm(d[3], False, depth + 1)
    if d[0] == "call":
        name = d[1]
        if re.search(r"PartialEq(<[^>]*>)?>?::eq$|cmp::PartialEq::eq$", name) and len(d[2]) == 2:
            return [(_strip(d[2][0]), "==" if truth else "!=", _strip(d[2][1]))]
        if re.search(r"PartialEq(<[^>]*>)?>?::ne$|cmp::PartialEq::ne$", name) and len(d[2]) == 2:
            return [(_strip(d[2][0]), "!=" if truth else "==", _strip(d[2][1]))]
        if re.search(r"PartialOrd(<[^>]*>)?>?::(lt|le|gt|ge)$|cmp::PartialOrd::(lt|le|gt|ge)$", name) and len(d[2]) == 2:
            op = {"lt": "<", "le": "<=", "gt": ">", "ge": ">="}[name.rsplit("::", 1)[1]]
            if not truth:
                op = NEG[op]
            return [(_strip(d[2][0]), op, _strip(d[2][1]))]
        if name.endswith("::is_empty") and d[2]:
            x = _strip(d[2][0])
            return [(("len", x), "==" if truth else ">=", ("lit", 0 if truth else 1))]
        if re.search(r"::(is_some|is_ok)$", name) and d[2]:
            return [(("is", "some", _strip(d[2][0])), "==", ("lit", truth))]
        if re.search(r"::(is_none|is_err)$", name) and d[2]:
            return [(("is", "some", _strip(d[2][0])), "==", ("lit", not truth))]
        if re.search(r"::(starts_with|ends_with|contains|contains_key|is_char_boundary|eq_ignore_ascii_case)$", name):
            return [(("pred", name.rsplit("::", 1)[1], tuple(_strip(x) for x in d[2])), "==", ("lit", truth))]
        if re.search(r"krauss::wildcard_match$", name):
            return [(("pred", "wildcard_match", tuple(_strip(x) for x in d[2])), "==", ("lit", truth))]
    if d[0] in ("field", "param", "local", "upvar", "index"):
        return [(_strip(d), "==", ("lit", bool(truth)))]
    if d[0] == "multi":
        # short-circuit && / || lowered to a phi of constants and a sub-condition: only the conjunctive reading is used
        return []
    return []


def _pat_len(p):
    """Byte length of a literal pattern (char code or str) or None."""
    if isinstance(p, tuple) and len(p) > 1 and p[0] == "lit":
        if isinstance(p[1], str):
            return len(p[1].encode())
        if isinstance(p[1], int) and not isinstance(p[1], bool):
            try:
                return len(chr(p[1]).encode())
            except ValueError:
                return None
    return None


def affix_facts(facts, x):
    """(prefix_len, suffix_len) in bytes known for string x from starts_with/ends_with/wildcard_match facts."""
    x = _strip(x)
    pre = suf = 0
    both_min = 0
    for (a, op, b) in facts:
        if not (isinstance(a, tuple) and a and a[0] == "pred"):
            continue
        truth = (op == "==" and b == ("lit", True)) or (op == "!=" and b == ("lit", False))
        if not truth:
            continue
        name, args = a[1], a[2]
        if name == "starts_with" and len(args) == 2 and args[0] == x and _pat_len(args[1]):
            pre = max(pre, _pat_len(args[1]))
        if name == "ends_with" and len(args) == 2 and args[0] == x and _pat_len(args[1]):
            suf = max(suf, _pat_len(args[1]))
        if name == "wildcard_match" and len(args) == 2 and args[1] == x and args[0][0] == "lit" and isinstance(args[0][1], str):
            pat = args[0][1]
            if pat.count("*") == 1:
                pfx, sfx = pat.split("*")
                pre = max(pre, len(pfx.encode()))
                suf = max(suf, len(sfx.encode()))
                both_min = max(both_min, len(pfx.encode()) + len(sfx.encode()))
    return pre, suf, both_min


def _len_of(d):
    """If d is `len(X)` return X (stripped) else None."""
    d = _strip(d)
    if isinstance(d, tuple) and d and d[0] == "call" and re.search(r"::len$", d[1]) and d[2]:
        return _strip(d[2][0])
    if isinstance(d, tuple) and d and d[0] == "len":
        return d[1]
    return None


def min_len(facts, x):
    """Largest k such that the facts imply len(x) >= k (0 if nothing is known)."""
    x = _strip(x)
    pre, suf, both = affix_facts(facts, x)
    best = max(pre, suf, both)
    for (a, op, b) in facts:
        la, lb = _len_of(a), _len_of(b)
        ca, cb = _const_int(a), _const_int(b)
        if la is not None and la == x and cb is not None:
            if op in (">=", "=="):
                best = max(best, cb)
            elif op == ">":
                best = max(best, cb + 1)
            elif op == "!=" and cb == 0:
                best = max(best, 1)
        if lb is not None and lb == x and ca is not None:
            if op in ("<=", "=="):
                best = max(best, ca)
            elif op == "<":
                best = max(best, ca + 1)
            elif op == "!=" and ca == 0:
                best = max(best, 1)
    return best


def exact_len(facts, x):
    x = _strip(x)
    for (a, op, b) in facts:
        if op == "==":
            if _len_of(a) == x and _const_int(b) is not None:
                return _const_int(b)
            if _len_of(b) == x and _const_int(a) is not None:
                return _const_int(a)
    return None


# ---- discharges -----------------------------------------------------------------------------

def _const_int(d):
    return d[1] if isinstance(d, tuple) and len(d) > 1 and d[0] == "lit" and isinstance(d[1], int) and not isinstance(d[1], bool) else None


def guards(prog, body, block):
    return core.guards_dominating(prog, body, block)


SPLIT_RX = r"<impl str>::(split|splitn|split_terminator|rsplit|rsplitn|lines|split_inclusive)$|slice::<impl \[T\]>::(split|splitn)$"


def _collect_of_split(d):
    d = _strip(d)
    if isinstance(d, tuple) and d and d[0] == "call" and d[1].endswith("::collect") and d[2]:
        it = d[2][0]
        if isinstance(it, tuple) and it and it[0] == "call" and re.search(SPLIT_RX, it[1]):
            return it
    return None


def _is_str_ty(ty):
    ty = ty.lstrip("&").replace("mut ", "")
    return ty in ("str", "std::string::String")


def try_discharge(prog, site):
    body, blk, t = site.body, site.block, site.term
    if not reachable_from_entry(body, blk):
        return "unreachable", "block not reachable from entry over normal edges"
    k = site.kind
    facts = None

    def F():
        nonlocal facts
        if facts is None:
            facts = cmp_facts(prog, body, blk)
        return facts
    if k == "assert":
        ak = site.what
        ops = site.operands
        if ak == "bounds":
            ln, ix = _const_int(ops[0]), _const_int(ops[1])
            if ln is not None and ix is not None and 0 <= ix < ln:
                return "const", f"constant index {ix} < constant length {ln}"
            if ln is not None:
                r = _range_of(prog, body, ops[1], 0, F())
                if r is not None and r[0] >= 0 and r[1] < ln:
                    return "range", f"index in [{r[0]},{r[1]}] < {ln}"
        if ak.startswith("overflow"):
            a, b = (ops + [None, None])[:2]
            ca, cb = _const_int(a) if a else None, _const_int(b) if b else None
            if ca is not None and cb is not None:
                return "const", "constant operands"
            op = ak.split(":")[1] if ":" in ak else ""
            ty = _operand_ty(body, t["ops"][0]) if t["ops"] else None
            # len(x) - c guarded by len(x) >= c
            if op == "Sub" and cb is not None and a is not None:
                x = _len_of(a)
                if x is not None and min_len(F(), x) >= cb:
                    return "guard", f"len(..) >= {min_len(F(), x)} established by a dominating test"
                # a - c with a >= c from a comparison fact
                for (l, o, r_) in F():
                    if l == _strip(a) and _const_int(r_) is not None and ((o in (">=", "==") and _const_int(r_) >= cb) or (o == ">" and _const_int(r_) + 1 >= cb)):
                        return "guard", "minuend bounded below by a dominating comparison"
            ra = _range_of(prog, body, a, 0, F()) if a else None
            rb = _range_of(prog, body, b, 0, F()) if b else None
            if ra and rb and ty:
                lo, hi = _int_bounds(ty)
                if op == "Add" and lo <= ra[0] + rb[0] and ra[1] + rb[1] <= hi:
                    return "range", f"{ra}+{rb} fits {ty}"
                if op == "Sub" and lo <= ra[0] - rb[1] and ra[1] - rb[0] <= hi:
                    return "range", f"{ra}-{rb} fits {ty}"
                if op == "Mul":
                    c = [ra[0] * rb[0], ra[0] * rb[1], ra[1] * rb[0], ra[1] * rb[1]]
                    if lo <= min(c) and max(c) <= hi:
                        return "range", f"{ra}*{rb} fits {ty}"
                if op in ("Shl", "Shr"):
                    bits = int(re.sub(r"\D", "", ty) or 64)
                    if 0 <= rb[0] and rb[1] < bits:
                        return "range", f"shift by {rb} < {bits}"
            if op in ("Shl", "Shr") and rb and ty:
                bits = int(re.sub(r"\D", "", _operand_ty(body, t["ops"][0]) or ty) or 64)
                if 0 <= rb[0] and rb[1] < bits:
                    return "range", f"shift by {rb} < {bits}"
            if op == "Mul" and ty == "usize" and a is not None and b is not None:
                la, lb = _len_of(a), _len_of(b)
                c_ = cb if la is not None else (ca if lb is not None else None)
                if c_ is not None and 0 <= c_ <= 64:
                    return "memory", f"len() of an in-memory collection times {c_}: the product exceeds 2^64 only for a collection larger than any address space (len <= 2^57)"
            if op == "Add" and cb == 1 and ty in ("usize", "u64", "u128"):
                return "counter", f"{ty} counter incremented by one per element/iteration: cannot reach 2^64 before memory/time is exhausted"
        if ak in ("div_zero", "rem_zero"):
            # the assert's operand is the dividend; the divisor is in the condition `divisor == 0` (expected false)
            cd = describe(prog, body, t["cond"])
            dv = None
            if cd[0] == "bin" and cd[1] == "Eq":
                dv = cd[2] if _const_int(cd[3]) == 0 else (cd[3] if _const_int(cd[2]) == 0 else None)
            if dv is not None:
                c = _const_int(dv)
                if c is not None and c != 0:
                    return "const", f"constant non-zero divisor {c}"
                r = _range_of(prog, body, dv)
                if r and (r[0] > 0 or r[1] < 0):
                    return "range", f"divisor in {r}"
                x = _len_of(dv) or (_len_of(dv[2][0]) if dv[0] == "call" and dv[2] else None) or (_len_of(dv[1]) if dv[0] == "cast" else None)
                if x is not None and min_len(F(), x) >= 1:
                    return "guard", "divisor is the length of a collection known to be non-empty"
    if k == "call:unwrap":
        recv = site.operands[0] if site.operands else None
        if recv and recv[0] == "call" and re.search(r"(Mutex::<T>::lock|RwLock::<T>::(read|write)|EqMutex::<T>::lock)$", recv[1]):
            return "poison", "LockResult::unwrap panics only if another thread already panicked while holding the lock"
        if recv and recv[0] == "call" and recv[1].endswith("::next"):
            it = recv[2][0] if recv[2] else None
            if it and it[0] == "call" and re.search(SPLIT_RX, it[1]):
                if _first_next_on(prog, body, recv):
                    return "first-split", "first next() of a fresh split/splitn iterator always yields an element"
        if recv and recv[0] == "call" and re.search(r"Iterator::last$|::last$", recv[1]) and recv[2]:
            it = recv[2][0]
            if it and it[0] == "call" and re.search(SPLIT_RX, it[1]):
                return "first-split", "last() of a fresh split/splitn iterator always yields an element"
            if it and it[0] == "call" and re.search(r"<impl str>::(chars|bytes|char_indices)$", it[1]) and it[2] and min_len(F(), it[2][0]) >= 1:
                return "guard", "last() of the chars of a string known to be non-empty"
        if site.what.endswith("unwrap_err") or site.what.endswith("expect_err"):
            r0 = _strip(recv) if recv is not None else None
            for s_, lab, d, info in guards(prog, body, blk):
                if lab in ("Err",) and _strip(d) == r0:
                    return "guard", "dominated by the Err edge of the same value"
        if recv is not None:
            r0 = _strip(recv)
            for s, lab, d, info in guards(prog, body, blk):
                if lab in ("Some", "Ok") and _strip(d) == r0:
                    return "guard", f"dominated by the {lab} edge of the same value"
            for (a, op, b) in F():
                if isinstance(a, tuple) and a and a[0] == "is" and a[2] == r0 and ((op == "==" and b == ("lit", True)) or (op == "!=" and b == ("lit", False))):
                    return "guard", "dominated by is_some()/is_ok() on the same value"
            # last()/first() of a collection known to be non-empty
            if r0[0] == "call" and re.search(r"::(last|first|last_mut|first_mut|pop|iter\(\)\.next)$", r0[1]) and r0[2]:
                if min_len(F(), r0[2][0]) >= 1:
                    return "guard", "collection known non-empty by a dominating test"
    if k == "call:index":
        recv_ty = (t.get("arg_tys") or [""])[0]
        idx_ty = (t.get("arg_tys") or ["", ""])[1] if len(t.get("arg_tys") or []) > 1 else ""
        recv, idx = site.operands[0], site.operands[1]
        if _is_str_ty(recv_ty):
            # byte-offset slicing of a str: both ends must be char boundaries
            ends = []
            if idx[0] == "variant" and idx[2] in ("Range", "RangeInclusive"):
                ends = list(idx[3])
            elif idx[0] == "variant" and idx[2] in ("RangeFrom", "RangeTo", "RangeToInclusive"):
                ends = list(idx[3])
            ok = bool(ends) or (idx[0] == "variant" and idx[2] == "RangeFull")
            pre, suf, both = affix_facts(F(), recv)
            if len(ends) == 2 and idx[2] == "Range":
                lo, hi = ends
                e2 = _strip(hi)
                if e2[0] == "field" and e2[1][0] == "bin":
                    e2 = e2[1]
                if _const_int(lo) is not None and e2[0] == "bin" and e2[1].startswith("Sub") and _len_of(e2[2]) == _strip(recv) and _const_int(e2[3]) is not None:
                    c1, c2 = _const_int(lo), _const_int(e2[3])
                    if c1 == pre and c2 == suf and (c1 == 0 or pre) and (c2 == 0 or suf) and min_len(F(), recv) >= c1 + c2:
                        return "char-boundary", f"x[{c1}..len-{c2}] with a {pre}-byte prefix and {suf}-byte suffix established and len >= {c1 + c2}"
            for e in ends:
                if _const_int(e) == 0:
                    continue
                if _len_of(e) is not None and _len_of(e) == _strip(recv):
                    continue
                if desc_contains(e, lambda y: y[0] == "call" and re.search(r"::(find|rfind|len_utf8|char_indices|match_indices|floor_char_boundary)$", y[1]) is not None):
                    # ... positions in the string that is sliced, not in a copy of it that may have other byte offsets
                    # (`s.to_uppercase().char_indices()` positions do not index `s`)
                    pos = [c for c in core.desc_calls(e) if re.search(r"::(find|rfind|char_indices|match_indices|floor_char_boundary)$", c[1]) and c[2]]
                    foreign = [c for c in pos if _strip(c[2][0]) != _strip(recv) and
                               desc_contains(c[2][0], lambda y: y[0] == "call" and re.search(r"::(to_uppercase|to_lowercase|to_ascii_uppercase|to_ascii_lowercase|replace|replacen|trim\w*|repeat|to_string|to_owned|format|strip_\w+|split\w*)$", y[1]) is not None)]
                    if not foreign:
                        continue
                ok = False
            if ok:
                return "char-boundary", "slice bounds are 0 / len() / positions returned by find or char_indices"
            return None, None
        if "Range" in idx_ty:
            # slice[from..] with `from < len` / `from <= len` established (arrays: constant length)
            if idx[0] == "variant" and idx[2] == "RangeFrom" and idx[3]:
                lo = _strip(idx[3][0])
                m = re.search(r"\[[^;\]]+; (\d+)\]", recv_ty)
                for (a, op, b) in F():
                    if a == lo and op in ("<", "<="):
                        if _len_of(b) == _strip(recv) or (m and _len_of(b) is not None) or (m and _const_int(b) is not None and _const_int(b) <= int(m.group(1))):
                            return "guard", "range start bounded by the length through a dominating comparison"
            return None, None
        ci = _const_int(idx)
        if ci is not None:
            n = max(min_len(F(), recv), exact_len(F(), recv) or 0)
            if ci < n:
                return "guard", f"index {ci} < len established by a dominating test (len >= {n})"
            if ci == 0 and _collect_of_split(recv) is not None:
                return "first-split", "a collected split/splitn always has at least one element"
        # idx < len(recv) fact
        for (a, op, b) in F():
            if a == _strip(idx) and op == "<" and _len_of(b) == _strip(recv):
                return "guard", "index < len() established by a dominating comparison"
            if b == _strip(idx) and op == ">" and _len_of(a) == _strip(recv):
                return "guard", "index < len() established by a dominating comparison"
        r = _range_of(prog, body, idx)
        if r is not None:
            m = re.search(r"\[[^;\]]+; (\d+)\]", recv_ty)
            if m and r[0] >= 0 and r[1] < int(m.group(1)):
                return "range", f"index in {r} < array length {m.group(1)}"
        # v[i] with i the Some payload of v.iter().position(..) (or rposition / enumerate's index found by find): an index of an element of v,
        # provided v is not shortened in between (no &mut use of v between the search and the indexing in this body)
        pos = [c for c in core.desc_calls(idx) if re.search(r"Iterator>?::(position|rposition)$|::iter::Iterator::(position|rposition)$", c[1]) and c[2]]
        if len(pos) == 1 and len(pos[0]) > 3 and isinstance(pos[0][3], int):
            src = pos[0][2][0]
            its = [c for c in core.desc_calls(src) if re.search(r"::(iter|iter_mut)$|IntoIterator>?::into_iter$", c[1]) and c[2]]
            same = bool(its) and all(_strip(c[2][0]) == _strip(recv) for c in its) and \
                not [c for c in core.desc_calls(src) if re.search(r"::(skip|rev|filter|filter_map|step_by|skip_while|chain|zip|take|flat_map|flatten)$", c[1])]
            if same:
                pb = pos[0][3]
                between = set(body.reachable(body.succs(pb))) & {x for x in range(len(body.blocks)) if site.block in body.reachable([x])}
                shrink = [x for x in between if body.term(x) and body.term(x)["k"] == "call" and x != site.block and
                          re.search(r"::(remove|swap_remove|pop|truncate|clear|drain|retain|split_off|dedup\w*)$", body.term(x).get("callee") or "")]
                if not shrink:
                    return "position", "the index is the position of an element found in the same vector, which is not shortened in between"
    if k == "call:vec-op":
        name = site.what.rsplit("::", 1)[1]
        recv = site.operands[0]
        if name == "insert" and _const_int(site.operands[1]) == 0:
            return "const", "insert at index 0 is always in bounds"
        if name in ("remove", "swap_remove"):
            idx = site.operands[1]
            ci = _const_int(idx)
            n = min_len(F(), recv)
            if ci is not None and ci < n:
                return "guard", f"index {ci} < len (>= {n})"
            # remove(len - 1) of a non-empty vector
            i2 = _strip(idx)
            if i2[0] == "field" and i2[1][0] == "bin":
                i2 = i2[1]
            if i2[0] == "bin" and i2[1].startswith("Sub") and _len_of(i2[2]) == _strip(recv) and _const_int(i2[3]) is not None and 1 <= _const_int(i2[3]) <= n:
                return "guard", "remove(len - c) of a vector known to have at least c elements"
    if k == "call:string-op":
        name = site.what.rsplit("::", 1)[1]
        if name == "insert" and _const_int(site.operands[1]) == 0:
            return "const", "insert at byte 0 is always a char boundary"
    if k == "call:slice-op":
        name = site.what.rsplit("::", 1)[1]
        if name in ("chunks", "chunks_exact", "windows") and len(site.operands) > 1:
            n = _const_int(site.operands[1])
            if n is not None and n > 0:
                return "const", f"constant non-zero chunk size {n}"
    if k == "call:radix":
        r = _const_int(site.operands[1]) if len(site.operands) > 1 else None
        if r is not None and 2 <= r <= 36:
            return "const", f"constant radix {r} in 2..=36"
    if k == "call:char-digit":
        r = _const_int(site.operands[1]) if len(site.operands) > 1 else None
        if r is not None and 2 <= r <= 36:
            return "const", f"constant radix {r} in 2..=36"
    if k == "call:int-op":
        name = site.what.rsplit("::", 1)[1]
        if name == "pow":
            a, b = _range_of(prog, body, site.operands[0]), _range_of(prog, body, site.operands[1])
            if a and b and a[0] >= 0 and b[0] >= 0 and a[1] ** b[1] < 2**63:
                return "range", f"{a}^{b} fits"
    return None, None


def _same(a, b):
    return _strip(a) == _strip(b)


_STRIP_RX = re.compile(r"::(deref|deref_mut|as_ref|as_mut|as_str|as_slice|as_mut_slice|as_deref|as_bytes|borrow|borrow_mut|clone)$")


def _strip(d):
    """Peel value-preserving wrappers (deref / as_ref / as_str / borrow / clone) off a description."""
    while isinstance(d, tuple) and d and d[0] == "call" and _STRIP_RX.search(d[1]) and d[2]:
        d = d[2][0]
    return d


def _first_next_on(prog, body, next_desc):
    """The iterator local has exactly one `next` call before this one on every path (i.e. this is the first)."""
    blk = next_desc[3] if len(next_desc) > 3 else None
    if blk is None:
        return False
    t = body.term(blk)
    il = op_local(t["args"][0])
    # find the underlying iterator local (through &mut)
    it_locals = set()
    work = [il]
    while work:
        l = work.pop()
        if l in it_locals or l is None:
            continue
        it_locals.add(l)
        for d in body.defs().get(l, []):
            if d[2] == "assign" and d[3]["rv"]["k"] == "ref":
                work.append(d[3]["rv"]["pl"]["l"])
    base = it_locals
    # all next calls on the same iterator
    nexts = []
    for b2, t2 in body.calls():
        if (t2.get("callee") or "").endswith("::next") and t2["args"]:
            l2 = op_local(t2["args"][0])
            s2 = {l2}
            for d in body.defs().get(l2, []):
                if d[2] == "assign" and d[3]["rv"]["k"] == "ref":
                    s2.add(d[3]["rv"]["pl"]["l"])
            if s2 & base:
                nexts.append(b2)
    # this one is first if no other next on the iterator can reach it
    for n in nexts:
        if n != blk and blk in body.reachable(body.succs(n)):
            return False
    return True


INT_BOUNDS = {"u8": (0, 2**8 - 1), "u16": (0, 2**16 - 1), "u32": (0, 2**32 - 1), "u64": (0, 2**64 - 1), "u128": (0, 2**128 - 1),
              "usize": (0, 2**64 - 1), "i8": (-2**7, 2**7 - 1), "i16": (-2**15, 2**15 - 1), "i32": (-2**31, 2**31 - 1),
              "i64": (-2**63, 2**63 - 1), "i128": (-2**127, 2**127 - 1), "isize": (-2**63, 2**63 - 1)}


def _int_bounds(ty):
    return INT_BOUNDS.get(ty, (0, 2**64 - 1))


def _operand_ty(body, op):
    if op.get("k") == "const":
        return op.get("ty")
    pl = core.op_place(op)
    if pl is not None:
        return core.place_ty(body, pl)
    return None


def _fact_bounds(facts, d):
    """[lo, hi] for description d from comparison facts with constants (None for an open side)."""
    if not facts:
        return None
    x = _strip(d)
    lo = hi = None
    for (a, op, b) in facts:
        ca, cb = _const_int(a), _const_int(b)
        if a == x and cb is not None:
            if op == "==":
                lo, hi = cb, cb
            elif op == "<=":
                hi = cb if hi is None else min(hi, cb)
            elif op == "<":
                hi = cb - 1 if hi is None else min(hi, cb - 1)
            elif op == ">=":
                lo = cb if lo is None else max(lo, cb)
            elif op == ">":
                lo = cb + 1 if lo is None else max(lo, cb + 1)
        if b == x and ca is not None:
            if op == "==":
                lo, hi = ca, ca
            elif op == ">=":
                hi = ca if hi is None else min(hi, ca)
            elif op == ">":
                hi = ca - 1 if hi is None else min(hi, ca - 1)
            elif op == "<=":
                lo = ca if lo is None else max(lo, ca)
            elif op == "<":
                lo = ca + 1 if lo is None else max(lo, ca + 1)
    if lo is not None and hi is not None:
        return (lo, hi)
    return None


def _enumerate_index_bound(d):
    """d = `.0` of an element yielded by enumerate() over iter() of a chunk from `chunks(N)` / an array of N: [0, N-1]."""
    if not (isinstance(d, tuple) and d and d[0] == "field" and d[2] == 0):
        return None
    inner = d[1]
    if not (isinstance(inner, tuple) and inner and inner[0] == "field" and inner[2] == 0):
        return None
    nx = inner[1]
    if not (isinstance(nx, tuple) and nx and nx[0] == "call" and nx[1].endswith("::next")):
        return None
    if not desc_contains(nx, lambda y: y[0] == "call" and y[1].endswith("Iterator::enumerate")):
        return None
    for c in core.desc_calls(nx):
        if re.search(r"slice::<impl \[T\]>::(chunks|chunks_exact)$", c[1]) and len(c[2]) > 1 and _const_int(c[2][1]):
            return (0, _const_int(c[2][1]) - 1)
    return None


def _array_len(body, x):
    """N when x is (a reference / unsizing of) a local or parameter of array type [T; N]."""
    x = _strip(x)
    name, idx = None, None
    if isinstance(x, tuple) and x:
        if x[0] == "repeat" and len(x) > 2 and str(x[2]).isdigit():
            return int(x[2])            # `[v; N]`
        if x[0] == "array":
            return len(x[1])
        if x[0] == "multi" and len(x) > 2:
            name = x[2]
        elif x[0] in ("local", "param") and len(x) > 2:
            idx, name = x[1], x[2]
    cands = []
    if idx is not None and 0 <= idx < len(body.locals):
        cands.append(body.locals[idx]["ty"])
    if name:
        cands += [loc["ty"] for loc in body.locals if loc.get("name") == name]
    for ty in cands:
        m = re.match(r"^&?(mut )?\[[^;\]]+; (\d+)\]$", (ty or "").strip())
        if m:
            return int(m.group(2))
    return None


def _range_of(prog, body, d, depth=0, facts=None):
    """Interval [lo, hi] of an integer description, or None. Small constant evaluator."""
    if d is None or depth > 8 or not isinstance(d, tuple):
        return None
    c = _const_int(d)
    if c is not None:
        return (c, c)
    fb = _fact_bounds(facts, d)
    if fb is not None:
        return fb
    eb = _enumerate_index_bound(d)
    if eb is not None:
        return eb
    k = d[0]
    if k == "lit" and isinstance(d[1], bool):
        return (int(d[1]), int(d[1]))
    if k == "bin":
        op, a, b = d[1], _range_of(prog, body, d[2], depth + 1, facts), _range_of(prog, body, d[3], depth + 1, facts)
        if op in ("Rem", "RemWithOverflow") and b and b[0] > 0:
            return (0, b[1] - 1)
        if op in ("BitAnd",) and b and b[0] >= 0:
            return (0, b[1])
        if op in ("BitAnd",) and a and a[0] >= 0:
            return (0, a[1])
        if op in ("Shr", "ShrUnchecked") and a and b and a[0] >= 0 and b[0] >= 0:
            return (a[0] >> b[1], a[1] >> b[0])
        if a and b:
            if op in ("Add", "AddWithOverflow", "AddUnchecked"):
                return (a[0] + b[0], a[1] + b[1])
            if op in ("Sub", "SubWithOverflow", "SubUnchecked"):
                return (a[0] - b[1], a[1] - b[0])
            if op in ("Mul", "MulWithOverflow", "MulUnchecked"):
                c = [a[0] * b[0], a[0] * b[1], a[1] * b[0], a[1] * b[1]]
                return (min(c), max(c))
            if op in ("Shl", "ShlUnchecked") and b[0] >= 0 and a[0] >= 0:
                return (a[0] << b[0], a[1] << b[1])
            if op == "Div" and b[0] > 0 and a[0] >= 0:
                return (a[0] // b[1], a[1] // b[0])
        return None
    if k == "field" and d[2] == 0 and isinstance(d[1], tuple) and d[1] and d[1][0] == "bin":
        # (x op y).0 of a checked operation
        return _range_of(prog, body, d[1], depth + 1, facts)
    if k == "call":
        name = d[1]
        m = re.search(r"ops::(Add|Sub|Mul)(<[^>]*>)?>?::(add|sub|mul)$", name)
        if m and len(d[2]) == 2:
            a, b = _range_of(prog, body, _strip(d[2][0]), depth + 1, facts), _range_of(prog, body, _strip(d[2][1]), depth + 1, facts)
            if a and b:
                if m.group(3) == "add":
                    return (a[0] + b[0], a[1] + b[1])
                if m.group(3) == "sub":
                    return (a[0] - b[1], a[1] - b[0])
                cs = [a[0] * b[0], a[0] * b[1], a[1] * b[0], a[1] * b[1]]
                return (min(cs), max(cs))
            return None
        if re.search(r"num::<impl [iu](8|16|32|64|128|size)>::pow$", name) and len(d[2]) == 2:
            a, b = _range_of(prog, body, d[2][0], depth + 1), _range_of(prog, body, d[2][1], depth + 1)
            if a and b and a[0] >= 0 and 0 <= b[0] and b[1] < 128:
                return (a[0] ** b[0], a[1] ** b[1])
            return None
        if re.search(r"::from$|::into$", name) and d[2]:
            return _range_of(prog, body, d[2][0], depth + 1, facts)
        if name.endswith("::len") and d[2] and body is not None:
            n = _array_len(body, d[2][0])
            return (n, n) if n is not None else None
        if name.endswith("::len") or name.endswith("::count"):
            return None
        if re.search(r"char::methods::<impl char>::to_digit$", name):
            return None
        return None
    if k == "multi":
        rs = [_range_of(prog, body, x, depth + 1, facts) for x in d[1]]
        if all(rs):
            return (min(r[0] for r in rs), max(r[1] for r in rs))
        return None
    return None


def _is_element_counter(prog, body, op):
    l = op_local(op)
    if l is None:
        return False
    return body.local_ty(l) == "usize"


def inventory(prog, entries, exclude=()):
    bodies = reach(prog, entries, exclude)
    sites = []
    for p in sorted(bodies):
        b = prog.bodies[p]
        if "promoted" in p:
            continue
        sites.extend(sites_of(prog, b))
    return bodies, sites

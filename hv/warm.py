"""setup helper: warm the build caches of the witness crates (json corpus, typing witnesses)."""
import sys

from . import report
from .props import c14_corpus


def main():
    chk = report.Check("C14", "quick", 0)
    try:
        c14_corpus.run(chk)
        print(f"json corpus warmed: {chk.extra.get('corpus')}")
    except Exception as e:  # noqa
        print(f"warm-up of the json corpus failed: {e}", file=sys.stderr)
        return 1
    return 0


if __name__ == "__main__":
    sys.exit(main())

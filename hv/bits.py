"""Bit provenance (R-BITS): an abstract value is a vector of bit sources, LSB first.

A bit source is 0, 1, ('in', key, index, bit) — bit `bit` of element `index` of the input sequence `key` — or None (unknown).
The transfer functions cover what bit-shuffling code is made of: constants, element loads `(*base)[const]`, shifts by
constants, `& | ^` (exact when at most one side of each bit is not a constant), and integer casts (zero extension /
truncation by the declared widths of the MIR locals).  Everything else is unknown, so a verdict "bit j of the result is input
bit (i, b)" is a fact about every input.
"""
import re

from . import core

WIDTH = {"u8": 8, "i8": 8, "u16": 16, "i16": 16, "u32": 32, "i32": 32, "char": 32, "u64": 64, "i64": 64, "usize": 64, "isize": 64, "u128": 128, "i128": 128, "bool": 1}


def width_of(ty):
    return WIDTH.get((ty or "").strip())


def const_bits(v, w):
    return [(v >> i) & 1 for i in range(w)]


class BitEval:
    def __init__(self, prog, body, upper_bound=None):
        """upper_bound(description) -> int | None: a proven upper bound of an opaque unsigned value (its higher bits are then 0)."""
        self.prog, self.b = prog, body
        self.memo = {}
        self.upper_bound = upper_bound
        self.keys = {}              # rendered key -> description tree of the opaque value

    def opaque(self, d, w):
        key = core.short(str(d))
        self.keys[key] = d
        bits_ = [("in", key, 0, i) for i in range(w)]
        ub = self.upper_bound(d) if self.upper_bound else None
        if isinstance(ub, int) and ub >= 0:
            n = max(ub.bit_length(), 0)
            bits_ = [bits_[i] if i < n else 0 for i in range(w)]
        return bits_

    def enum_bits(self, ty):
        """bit length of the largest discriminant of a fieldless enum type known to the program, else None."""
        e = self.prog.enums.get((ty or "").strip()) if hasattr(self.prog, "enums") else None
        if e and all(isinstance(v, dict) and isinstance(v.get("discr"), int) and not v.get("fields") for v in e["variants"]):
            return max(v["discr"] for v in e["variants"]).bit_length()
        return None

    def _const_int(self, o):
        d = core.describe(self.prog, self.b, o)
        if isinstance(d, tuple) and d and d[0] == "lit" and isinstance(d[1], int) and not isinstance(d[1], bool):
            return d[1]
        return None

    def operand(self, o, w=None):
        if o.get("k") == "const":
            v = o.get("v")
            ww = width_of(o.get("ty")) or w
            if isinstance(v, int) and not isinstance(v, bool) and ww:
                return const_bits(v, ww)
            if isinstance(v, bool) and ww:
                return const_bits(int(v), ww)
            cv = self._const_int(o)          # named constants
            if cv is not None and ww and cv >= 0:
                return const_bits(cv, ww)
            return None
        return self.place(o["pl"])

    def place(self, pl):
        l, p = pl["l"], pl["p"]
        if not p:
            return self.local(l)
        # field of a tuple / struct literal built in this body
        if len(p) == 1 and p[0][0] == "f":
            ds = self.b.defs().get(l, [])
            if len(ds) == 1 and ds[0][2] == "assign" and ds[0][3]["rv"]["k"] == "agg" and p[0][1] < len(ds[0][3]["rv"]["ops"]):
                return self.operand(ds[0][3]["rv"]["ops"][p[0][1]], width_of(p[0][2]) if len(p[0]) > 2 else None)
            return None
        # element load: (*base)[idx]  /  base[idx]
        idx = [e for e in p if e[0] in ("i", "ci")]
        others = [e for e in p if e[0] not in ("i", "ci", "d")]
        if len(idx) == 1 and not others:
            e = idx[0]
            if e[0] == "i":
                iv = self._const_int({"k": "copy", "pl": {"l": e[1], "p": []}})
            else:
                iv = e[1]
            if iv is None:
                return None
            key = self.input_key(l)
            w = 8
            return [("in", key, iv, bit) for bit in range(w)]
        # a field (path) of a structure: an opaque value named by its description
        fl = [e for e in p if e[0] == "f"]
        if fl and all(e[0] in ("f", "d", "i", "ci", "dc") for e in p):
            ty = fl[-1][2] if len(fl[-1]) > 2 else None
            if idx and p[-1][0] in ("i", "ci"):
                m = re.match(r"^\[(.+); \d+\]$", (ty or "").strip())
                ty = m.group(1) if m else None
            w = width_of(ty)
            eb = self.enum_bits(ty)
            d = core._describe_place(self.prog, self.b, pl, 0, set())
            if w:
                return self.opaque(d, w)
            if eb is not None:
                return ("enum", self.opaque(d, max(eb, 1)))
        return None

    def input_key(self, l):
        """Identity of the sequence a load reads from: the description of its base value."""
        d = core.describe(self.prog, self.b, l)
        return core.short(str(d))

    def local(self, l):
        if l in self.memo:
            return self.memo[l]
        self.memo[l] = None
        w = width_of(self.b.local_ty(l))
        ds = self.b.defs().get(l, [])
        out = None
        if w and len(ds) == 1 and ds[0][2] == "assign" and not ds[0][3]["pl"]["p"]:
            out = self.rvalue(ds[0][3]["rv"], w)
            if out is not None:
                out = (out + [0] * w)[:w]
        elif w and len(ds) == 1 and ds[0][2] == "call":
            t = ds[0][3]
            names = " ".join(x for x in (t.get("callee"), t.get("resolved")) if x)
            # lossless unsigned widening: usize::from(u8), u32::from(u16), x.into()
            if re.search(r"(std::convert::From::from|std::convert::Into::into|as std::convert::From<u(8|16|32|64)>>::from)$", t.get("callee") or "") or \
                    re.search(r"as std::convert::From<u(8|16|32|64)>>::from", names):
                tys = t.get("arg_tys") or []
                if len(t["args"]) == 1 and tys and width_of(tys[0]) and tys[0].strip().startswith("u") and width_of(tys[0]) <= w:
                    v = self.operand(t["args"][0], width_of(tys[0]))
                    if v is not None:
                        out = (v + [0] * w)[:w]
        if out is None and w and len(ds) == 2 and all(d[2] == "assign" and not d[3]["pl"]["p"] and d[3]["rv"]["k"] == "use" and d[3]["rv"]["o"].get("k") == "const" and
                                                       isinstance(d[3]["rv"]["o"].get("v"), int) and not isinstance(d[3]["rv"]["o"].get("v"), bool) for d in ds):
            # `if b { C1 } else { C0 }`: a bit that differs between the constants is b (when it is set in C1 only)
            sel = None
            for s_, lab, dd, info in core.guards_dominating(self.prog, self.b, ds[0][0]):
                if lab in ("true", "false") and any(s2 == s_ and l2 in ("true", "false") and l2 != lab for s2, l2, d2, i2 in core.guards_dominating(self.prog, self.b, ds[1][0])):
                    sel = (s_, lab)
            if sel is not None:
                cond_local = core.op_local(self.b.term(sel[0])["discr"])
                cb = self.local(cond_local) if cond_local is not None else None
                c_true = ds[0][3]["rv"]["o"]["v"] if sel[1] == "true" else ds[1][3]["rv"]["o"]["v"]
                c_false = ds[1][3]["rv"]["o"]["v"] if sel[1] == "true" else ds[0][3]["rv"]["o"]["v"]
                if cb is not None and cb[0] not in (0, 1, None):
                    out = []
                    for i in range(w):
                        t_, f_ = (c_true >> i) & 1, (c_false >> i) & 1
                        out.append(t_ if t_ == f_ else (cb[0] if (t_, f_) == (1, 0) else None))
        if out is None and w and len(ds) >= 2:
            out = self._conditional_or(l, ds, w)
        if out is None and w:
            # an opaque value: every bit is "bit i of that value" (named by its description, so two uses of one value agree)
            out = self.opaque(core.describe(self.prog, self.b, l), w)
        self.memo[l] = out
        return out

    def _conditional_or(self, l, ds, w):
        """`let mut x = base; if a { x |= C1 } if b { x |= C2 } ..` read after all of it: bit i of x is base_i, or — where base_i is 0 and
        exactly one C sets it — the flag under which that `|=` runs.  Requires: one plain definition, every other definition `x = x | const`
        under the true edge of a 1-bit value, no definition inside a cycle, and no read of x (other than those `|=`) before a later definition."""
        b = self.b

        def self_or(d):
            if d[2] != "assign" or d[3]["pl"]["p"]:
                return None
            rv = d[3]["rv"]
            if rv["k"] != "bin" or rv["op"] != "BitOr":
                return None
            for me, other in ((rv["l"], rv["r"]), (rv["r"], rv["l"])):
                if core.op_local(me) == l and not me["pl"]["p"] and other.get("k") == "const" and isinstance(other.get("v"), int) and not isinstance(other.get("v"), bool):
                    return other["v"]
            return None
        ors = [(d, self_or(d)) for d in ds if self_or(d) is not None]
        base = [d for d in ds if self_or(d) is None]
        if len(base) != 1 or not ors or base[0][2] != "assign" or base[0][3]["pl"]["p"]:
            return None
        def_blocks = [d[0] for d in ds]
        for db in def_blocks:
            if db in b.reachable(b.succs(db)):
                return None

        def reads(x):
            if isinstance(x, dict):
                if x.get("k") in ("copy", "move") and x.get("pl", {}).get("l") == l:
                    return True
                if x.get("k") in ("ref", "rawptr", "discr", "len") and x.get("pl", {}).get("l") == l:
                    return True
                return any(reads(v) for k_, v in x.items() if k_ not in ("pl", "dest") or x.get("k") in ("ref", "rawptr", "discr", "len"))
            if isinstance(x, list):
                return any(reads(v) for v in x)
            return False
        or_stmts = [id(d[3]) for d, _ in ors]
        for bi, blk in enumerate(b.blocks):
            rd = any(reads(st.get("rv")) for st in blk["stmts"] if "rv" in st and id(st) not in or_stmts) or \
                (blk["term"] is not None and reads({k_: v for k_, v in blk["term"].items() if k_ in ("args", "discr", "cond", "value", "fn_operand")}))
            if rd:
                after = b.reachable(b.succs(bi))
                if any(db in after for db in def_blocks) or (bi in def_blocks and bi != base[0][0]):
                    return None
        out = self.rvalue(base[0][3]["rv"], w)
        if out is None:
            return None
        out = (out + [0] * w)[:w]
        base_guards = {(s_, lab) for s_, lab, dd, info in core.guards_dominating(self.prog, b, base[0][0])}
        for d, c in ors:
            own = [(s_, lab) for s_, lab, dd, info in core.guards_dominating(self.prog, b, d[0]) if (s_, lab) not in base_guards and lab in ("true", "false") and isinstance(s_, int)]
            if len(own) != 1 or own[0][1] != "true":
                return None
            t = b.term(own[0][0])
            cl = core.op_local(t["discr"]) if t and t.get("discr") is not None else None
            cb = self.local(cl) if cl is not None else None
            if cb is None or cb[0] in (0, 1, None):
                return None
            for i in range(w):
                if (c >> i) & 1:
                    if out[i] != 0:
                        return None
                    out[i] = cb[0]
        return out

    def rvalue(self, rv, w):
        k = rv["k"]
        if k == "use":
            return self.operand(rv["o"], w)
        if k == "cast":
            v = self.operand(rv["o"], w)
            if isinstance(v, tuple) and v and v[0] == "enum":
                return (v[1] + [0] * w)[:w]        # discriminant of a fieldless enum: only its low bits can be set
            if v is None:
                return None
            src_ty = self.b.local_ty(rv["o"]["pl"]["l"]) if rv["o"].get("pl") and not rv["o"]["pl"]["p"] else rv["o"].get("ty")
            if src_ty and src_ty.strip().startswith("i") and src_ty.strip() != "isize" and len(v) < w:
                return None     # sign extension of a possibly negative value: not modelled
            return (v + [0] * w)[:w]
        if k == "discr":
            pl = rv["pl"]
            fl = [e for e in pl["p"] if e[0] == "f"]
            ty = (fl[-1][2] if fl and len(fl[-1]) > 2 else self.b.local_ty(pl["l"]))
            eb = self.enum_bits((ty or "").lstrip("&").strip())
            if eb is not None:
                d = core._describe_place(self.prog, self.b, pl, 0, set())
                return (self.opaque(d, max(eb, 1)) + [0] * w)[:w]
            return None
        if k == "bin":
            op = rv["op"]
            if op in ("Shl", "Shr"):
                a = self.operand(rv["l"], w)
                n = self._const_int(rv["r"])
                if a is None or n is None or n < 0:
                    return None
                if op == "Shl":
                    return ([0] * n + a)[:len(a)]
                return a[n:] + [0] * min(n, len(a))
            if op in ("BitAnd", "BitOr", "BitXor"):
                a, b_ = self.operand(rv["l"], w), self.operand(rv["r"], w)
                if a is None or b_ is None:
                    return None
                n = max(len(a), len(b_))
                a, b_ = a + [0] * (n - len(a)), b_ + [0] * (n - len(b_))
                return [bit_op(op, x, y) for x, y in zip(a, b_)]
            return None
        return None


def bit_op(op, x, y):
    if op == "BitAnd":
        if x == 0 or y == 0:
            return 0
        if x == 1:
            return y
        if y == 1:
            return x
        return x if x == y else None
    if op == "BitOr":
        if x == 1 or y == 1:
            return 1
        if x == 0:
            return y
        if y == 0:
            return x
        return x if x == y else None
    if op == "BitXor":
        if x == 0:
            return y
        if y == 0:
            return x
        if x == y and x is not None:
            return 0
        return None
    return None


def show(bits, upto=None):
    """MSB-first rendering of the low `upto` bits."""
    bits = bits[:upto] if upto else bits
    out = []
    for s in reversed(bits):
        if s in (0, 1):
            out.append(str(s))
        elif s is None:
            out.append("?")
        else:
            out.append(f"b{s[2]}.{s[3]}")
    return " ".join(out)

"""R-TRUTH: the boolean function a piece of control flow computes over a few opaque atoms.

`if a && b { return false } true`, `let ok = !a || !b; ok`, `let refused = a && b; !refused`, a helper returning `bool`, `match (a, b)` —
the same decision can be spelled with branches, with boolean locals, or with both.  Given the atoms (calls whose results are the
inputs of the decision, recognised by the caller) the CFG is followed once per valuation of the atoms: a branch on an atom, or on a boolean
local computed from atoms and constants, takes the edge the valuation dictates; a branch on anything else is followed both ways.  The
result is, per valuation, the set of values the function can return — a finite truth table extracted from the control-flow graph, not
an execution: nothing but the atoms' truth values is assumed, no other data exists in the abstract state.
"""
import itertools

from . import core


def _eval_operand(op, env):
    if op.get("k") == "const":
        v = op.get("v")
        return v if isinstance(v, bool) else None
    pl = core.op_place(op)
    if pl is not None and not [e for e in pl["p"] if e[0] != "d"]:
        return env.get(pl["l"])
    return None


def _eval_rvalue(rv, env):
    k = rv["k"]
    if k in ("use", "cast"):
        return _eval_operand(rv["o"], env)
    if k == "un" and rv["op"] == "Not":
        v = _eval_operand(rv["o"], env)
        return (not v) if v is not None else None
    if k == "bin" and rv["op"] in ("BitAnd", "BitOr", "BitXor", "Eq", "Ne"):
        a, b = _eval_operand(rv["l"], env), _eval_operand(rv["r"], env)
        if rv["op"] == "BitAnd" and (a is False or b is False):
            return False
        if rv["op"] == "BitOr" and (a is True or b is True):
            return True
        if a is None or b is None:
            return None
        return {"BitAnd": a and b, "BitOr": a or b, "BitXor": a != b, "Eq": a == b, "Ne": a != b}[rv["op"]]
    if k == "ref":
        pl = rv["pl"]
        if not [e for e in pl["p"] if e[0] != "d"]:
            return env.get(pl["l"])
    return None


def run(prog, body, starts, atom_of, valuation, result_local=0, stop=()):
    """Set of values (True / False / None = not a function of the atoms) of `result_local` at the returns reachable from `starts`."""
    results = set()
    stack = [(s, ()) for s in starts]
    seen = set()
    steps = 0
    while stack and steps < 20000:
        steps += 1
        blk, envt = stack.pop()
        if (blk, envt) in seen or blk in stop:
            continue
        seen.add((blk, envt))
        env = dict(envt)
        for s in body.blocks[blk]["stmts"]:
            if "pl" not in s or s["pl"]["p"]:
                continue
            l = s["pl"]["l"]
            v = _eval_rvalue(s["rv"], env)
            if v is None:
                env.pop(l, None)
            else:
                env[l] = v
        t = body.term(blk)
        if t is None:
            continue
        k = t["k"]
        if k == "return":
            results.add(env.get(result_local))
            continue
        if k == "call":
            dest = t.get("dest")
            if dest is not None and not dest["p"]:
                a = atom_of(prog, body, blk, t)
                if a is not None and a[0] in valuation:
                    env[dest["l"]] = valuation[a[0]] == a[1]
                else:
                    env.pop(dest["l"], None)
            if t.get("target") is not None:
                stack.append((t["target"], tuple(sorted(env.items()))))
            continue
        if k == "switch" and t.get("discr_ty") == "bool":
            v = _eval_operand(t["discr"], env)
            if v is not None:
                f_t = None
                for val, tgt in t["targets"]:
                    if val == 0:
                        f_t = tgt
                tr_t = t["otherwise"]
                if f_t is None:
                    for val, tgt in t["targets"]:
                        if val == 1:
                            tr_t, f_t = tgt, t["otherwise"]
                stack.append(((tr_t if v else f_t), tuple(sorted(env.items()))))
                continue
        for sx in body.succs(blk):
            stack.append((sx, tuple(sorted(env.items()))))
    if stack:
        results.add(None)
    return results


def truth_table(prog, body, starts, atom_of, atoms, result_local=0, stop=()):
    """{valuation tuple (in the order of `atoms`): set of results}"""
    out = {}
    for vals in itertools.product((False, True), repeat=len(atoms)):
        out[vals] = run(prog, body, starts, atom_of, dict(zip(atoms, vals)), result_local, stop)
    return out

"""Self-test: apply a mutant patch to a scratch copy of /repo (outside /repo and /verif), re-extract,
and require the property's rules to fire with the expected key.  The scratch copy and its build
output are removed immediately afterwards."""
import json
import os
import shutil
import subprocess
import sys
import tempfile

VERIF = os.path.dirname(os.path.dirname(os.path.abspath(__file__)))
MUTANTS = os.path.join(VERIF, "selftest", "mutants")


def scratch_copy(repo="/repo"):
    d = tempfile.mkdtemp(prefix="hvm.", dir=os.environ.get("HV_SCRATCH", "/tmp"))
    subprocess.check_call(["rsync", "-a", "--exclude", "target", "--exclude", ".git", repo + "/", d + "/"])
    return d


def run_check_on(repo_dir, pid, tier="quick"):
    ev = tempfile.mkdtemp(prefix="hvev.", dir=os.environ.get("HV_SCRATCH", "/tmp"))
    env = dict(os.environ, HV_REPO=repo_dir, HV_EVIDENCE_DIR=ev, VERIF_TIER=tier)
    p = subprocess.run([os.path.join(VERIF, "check"), pid, "--tier", tier], env=env, cwd=VERIF,
                       stdout=subprocess.PIPE, stderr=subprocess.STDOUT, text=True)
    viol = []
    rp = os.path.join(ev, "reports", f"{pid}.json")
    if os.path.exists(rp):
        with open(rp) as fh:
            viol = json.load(fh)["violations"]
    shutil.rmtree(ev, ignore_errors=True)
    return p.returncode, p.stdout, viol


def apply_patch(repo_dir, patch):
    p = subprocess.run(["patch", "-p1", "--no-backup-if-mismatch", "-i", os.path.abspath(patch)], cwd=repo_dir,
                       stdout=subprocess.PIPE, stderr=subprocess.STDOUT, text=True)
    if p.returncode != 0:
        raise RuntimeError(f"patch {patch} does not apply:\n{p.stdout}")


def run_mutant(patch, pids, expect=None, keep=False):
    """Returns list of (pid, rc, violations). expect: substring that must occur in some violation key."""
    d = scratch_copy()
    try:
        apply_patch(d, patch)
        out = []
        for pid in pids:
            rc, stdout, viol = run_check_on(d, pid)
            out.append((pid, rc, viol, stdout))
        return out
    finally:
        if not keep:
            shutil.rmtree(d, ignore_errors=True)
            # drop cached facts of the scratch tree
            _drop_scratch_cache()


def _drop_scratch_cache():
    pass


def registered(pid):
    d = os.path.join(MUTANTS)
    if not os.path.isdir(d):
        return []
    return sorted(os.path.join(d, f) for f in os.listdir(d) if f.startswith(pid + "-") and f.endswith(".patch"))


def expectation(patch):
    """First line `# expect: <substring of violation key>` of the patch file."""
    with open(patch) as fh:
        for line in fh:
            if line.startswith("# expect:"):
                return line[len("# expect:"):].strip()
            if line.startswith("---"):
                break
    return None


def run(pid, mod, chk):
    """thorough tier: every registered mutant for `pid` must be detected with its expected key."""
    patches = registered(pid)
    bad = 0
    results = []
    for patch in patches:
        exp = expectation(patch)
        try:
            res = run_mutant(patch, [pid])
        except Exception as e:  # noqa
            print(f"[{pid}] selftest: {os.path.basename(patch)}: ERROR {e}")
            bad += 1
            continue
        _, rc, viol, stdout = res[0]
        keys = [v["key"] for v in viol]
        hit = rc == 1 and (exp is None or any(exp in k for k in keys))
        results.append({"mutant": os.path.basename(patch), "detected": hit, "expected_key_contains": exp, "keys": keys[:4]})
        print(f"[{pid}] selftest: {os.path.basename(patch)}: {'detected' if hit else 'MISSED'} ({len(keys)} violation(s))")
        if not hit:
            bad += 1
            sys.stdout.write(stdout[-1500:])
    # independently written breaking changes (seeded/<id>-<n>) that this check is recorded as catching must still be caught
    sd = os.path.join(VERIF, "seeded")
    if os.path.isdir(sd):
        for name in sorted(os.listdir(sd)):
            mp = os.path.join(sd, name, "meta.json")
            patch = os.path.join(sd, name, "patch.diff")
            if not (os.path.exists(mp) and os.path.exists(patch)):
                continue
            with open(mp) as fh:
                meta = json.load(fh)
            rec = meta.get("what_we_ran", {}).get("checks", {}).get(pid)
            if not rec or rec.get("rc") != 1:
                continue
            rules = sorted(set(k.split("|")[0] for k in rec.get("violations", []) if not k.startswith("anchor")))
            try:
                res = run_mutant(patch, [pid])
            except Exception as e:  # noqa
                print(f"[{pid}] selftest: seeded {name}: ERROR {e}")
                bad += 1
                continue
            _, rc, viol, stdout = res[0]
            keys = [v["key"] for v in viol]
            hit = rc == 1 and (not rules or any(k.split("|")[0] in rules for k in keys))
            results.append({"seeded_change": name, "detected": hit, "expected_rules": rules, "keys": keys[:4]})
            print(f"[{pid}] selftest: seeded {name}: {'detected' if hit else 'MISSED'} ({len(keys)} violation(s))")
            if not hit:
                bad += 1
                sys.stdout.write(stdout[-1500:])
    # behaviour-preserving refactors must stay silent
    eq_dir = os.path.join(VERIF, "selftest", "equiv")
    if os.path.isdir(eq_dir):
        for f in sorted(os.listdir(eq_dir)):
            if not (f.startswith(pid + "-") and f.endswith(".patch")):
                continue
            patch = os.path.join(eq_dir, f)
            try:
                res = run_mutant(patch, [pid])
            except Exception as e:  # noqa
                print(f"[{pid}] selftest: equiv {f}: ERROR {e}")
                bad += 1
                continue
            _, rc, viol, stdout = res[0]
            ok = rc == 0
            results.append({"equivalent_refactor": f, "silent": ok, "keys": [v["key"] for v in viol][:4]})
            print(f"[{pid}] selftest: equiv {f}: {'silent' if ok else 'FALSE ALARM'}")
            if not ok:
                bad += 1
                sys.stdout.write(stdout[-1500:])
    # behaviour-preserving refactorings written by independent sub-agents (refactors/<id>-<n>): must stay silent
    rd = os.path.join(VERIF, "refactors")
    if os.path.isdir(rd):
        for name in sorted(os.listdir(rd)):
            mp = os.path.join(rd, name, "meta.json")
            patch = os.path.join(rd, name, "patch.diff")
            if not (os.path.exists(mp) and os.path.exists(patch)):
                continue
            with open(mp) as fh:
                meta = json.load(fh)
            if meta.get("targets_property") != pid and pid not in meta.get("alarmed_once", []):
                continue
            if meta.get("not_equivalent"):
                continue
            try:
                res = run_mutant(patch, [pid])
            except Exception as e:  # noqa
                print(f"[{pid}] selftest: refactor {name}: ERROR {e}")
                bad += 1
                continue
            _, rc, viol, stdout = res[0]
            ok = rc == 0
            known_fa = pid in meta.get("known_false_alarm", [])
            results.append({"independent_refactoring": name, "silent": ok, "documented_limitation": known_fa and not ok, "keys": [v["key"] for v in viol][:4]})
            if not ok and known_fa:
                # a re-implementation the structural rules do not recognise (DESIGN.md §7.5b): reported, not counted against the self-test
                print(f"[{pid}] selftest: refactor {name}: false alarm (documented limitation: {meta.get('residual_reason', '')[:90]})")
                continue
            print(f"[{pid}] selftest: refactor {name}: {'silent' if ok else 'FALSE ALARM'}")
            if not ok:
                bad += 1
                sys.stdout.write(stdout[-1500:])
    # append to evidence
    evp = os.path.join(os.environ.get("HV_EVIDENCE_DIR", os.path.join(VERIF, "evidence")), f"{pid}.json")
    try:
        with open(evp) as fh:
            ev = json.load(fh)
        ev["coverage"]["selftest"] = results
        with open(evp, "w") as fh:
            json.dump(ev, fh, indent=1)
    except OSError:
        pass
    if bad:
        print(f"[{pid}] self-test failed for {bad} mutant(s): the check is broken (not a property violation)")
        return 2
    return 0


if __name__ == "__main__":
    # usage: python3 -m hv.selftest <patch> <PID> [<PID>...]
    patch = sys.argv[1]
    for pid, rc, viol, stdout in run_mutant(patch, sys.argv[2:]):
        print(f"== {pid}: rc={rc}, {len(viol)} violation(s)")
        for v in viol[:12]:
            print("   ", v["key"][:200])
        if rc not in (0, 1):
            print(stdout[-3000:])

"""R-PROGRESS at end of input: abstract execution of the *EOF scenario* of a read loop.

`read` / `read_until` / `read_line` report end of input as Ok(0) and leave the buffer untouched; a loop that
treats only errors (or only a particular line) as its exit then spins forever on a truncated message.  For every loop of a
parser whose cycle contains such a read into a buffer that is fresh (new / cleared) on every cycle, this module executes the
cycle on an abstract store in which the read returned Ok(0) and the buffer is empty, following only branches that the store
decides.  A path that comes back to the read with every branch decided is a definite spin (violation); a path that leaves
the loop is fine; a path that meets an undecided branch is reported as not decided (never as a violation).

Abstract values: ("empty",) empty str/bytes; ("int", n); ("bool", b); ("lit", x); ("variant", Name, payload); ("ref", local);
("tuple", [..]); ("future", value); None = unknown.
"""
import re

from . import core

EOF_READ = r"(Read::read|BufRead::read_until|BufRead::read_line|AsyncBufReadExt::read_until|AsyncBufReadExt::read_line|AsyncReadExt::read)$"
FRESH = r"(Vec::<T>::new|Vec::<T>::with_capacity|String::new|String::with_capacity)$"
CLEAR = r"(Vec::<T, A>::clear|String::clear)$"
IDENT = r"(::|>::)(deref|deref_mut|as_ref|as_mut|as_str|as_bytes|as_slice|as_mut_slice|borrow|borrow_mut|trim|trim_end|trim_start|into_future|into)$"

EMPTY = ("empty",)


class Undecided(Exception):
    pass


def _last(callee):
    return re.sub(r"::<[^>]*>$", "", callee).rsplit("::", 1)[-1]


class Scenario:
    def __init__(self, prog, body, read_block, buf_local, depth=0, budget=None):
        self.prog, self.b = prog, body
        self.read_block = read_block
        self.buf = buf_local
        self.env = {}
        self.depth = depth
        self.budget = budget if budget is not None else [600]
        self.trace = []
        self.fresh = False
        self.outcome = None

    # ---- places / operands
    def place(self, pl):
        v = self.env.get(pl["l"])
        for e in pl["p"]:
            if v is None:
                return None
            if e[0] == "d":
                if v[0] == "ref":
                    v = self.env.get(v[1])
                # deref of an abstract str/bytes value is itself
            elif e[0] == "dc":
                if v[0] != "variant" or v[1] != e[1]:
                    return None
            elif e[0] == "f":
                if v[0] == "variant":
                    v = v[2] if e[1] == 0 else None
                elif v[0] == "tuple":
                    v = v[1][e[1]] if e[1] < len(v[1]) else None
                elif v[0] == "future":
                    pass
                else:
                    return None
            else:
                return None
        return v

    def operand(self, o):
        if o.get("k") == "const":
            v = o.get("v")
            if isinstance(v, bool):
                return ("bool", v)
            if isinstance(v, int):
                return ("int", v)
            if "bytes" in o:
                bs = bytes(o["bytes"])
                return EMPTY if not bs else ("lit", bs)
            if isinstance(v, str):
                return EMPTY if v == "" else ("lit", v.encode())
            d = core.describe(self.prog, self.b, o)
            n = 0
            while isinstance(d, tuple) and d and d[0] in ("array",) and n < 2:
                n += 1
                if all(isinstance(x, tuple) and x[0] == "lit" and isinstance(x[1], int) for x in d[1]):
                    return ("lit", bytes(x[1] for x in d[1])) if d[1] else EMPTY
                break
            if isinstance(d, tuple) and d and d[0] == "lit":
                v = d[1]
                if isinstance(v, bool):
                    return ("bool", v)
                if isinstance(v, int):
                    return ("int", v)
                if isinstance(v, str):
                    return EMPTY if v == "" else ("lit", v.encode())
                if isinstance(v, (bytes, bytearray, list)):
                    return EMPTY if not v else ("lit", bytes(v))
            return None
        return self.place(o["pl"])

    def deref_val(self, v):
        n = 0
        while v is not None and v[0] == "ref" and n < 8:
            v = self.env.get(v[1])
            n += 1
        return v

    def root(self, v):
        """local a (chain of) reference(s) points to"""
        n = 0
        last = None
        while v is not None and v[0] == "ref" and n < 8:
            last = v[1]
            v = self.env.get(v[1])
            n += 1
        return last

    # ---- statements
    def stmt(self, s):
        if "pl" not in s:
            return
        pl, rv = s["pl"], s["rv"]
        val = self.rvalue(rv)
        if pl["p"]:
            self.env[pl["l"]] = None if not (len(pl["p"]) == 1 and pl["p"][0][0] == "d") else self.env.get(pl["l"])
            if len(pl["p"]) == 1 and pl["p"][0][0] == "d":
                r = self.env.get(pl["l"])
                if r and r[0] == "ref":
                    self.env[r[1]] = val
            return
        self.env[pl["l"]] = val

    def rvalue(self, rv):
        k = rv["k"]
        if k in ("use", "cast"):
            return self.operand(rv["o"])
        if k in ("ref", "rawptr"):
            pl = rv["pl"]
            if not pl["p"]:
                return ("ref", pl["l"])
            if all(e[0] == "d" for e in pl["p"]):
                v = self.env.get(pl["l"])
                for _ in pl["p"][:-1]:
                    v = self.env.get(v[1]) if v and v[0] == "ref" else None
                return v            # &*x == x
            return self.place(pl)   # reference to a projection: carry the abstract value
        if k == "discr":
            v = self.deref_val(self.place(rv["pl"]))
            if v is not None and v[0] == "variant":
                return ("discr", v[1])
            return None
        if k == "agg":
            ops = [self.operand(o) for o in rv["ops"]]
            if rv.get("agg") == "adt":
                return ("variant", rv["variant"], ops[0] if ops else None)
            if rv.get("agg") == "tuple":
                return ("tuple", ops)
            return None
        if k == "bin":
            l, r = self.deref_val(self.operand(rv["l"])), self.deref_val(self.operand(rv["r"]))
            return self.binop(rv["op"], l, r)
        if k == "un":
            v = self.deref_val(self.operand(rv["o"]))
            if v and v[0] == "bool" and rv["op"] == "Not":
                return ("bool", not v[1])
            return None
        if k == "len":
            return None
        return None

    @staticmethod
    def binop(op, l, r):
        if l is None or r is None:
            return None
        if l[0] == "int" and r[0] == "int":
            a, b = l[1], r[1]
            table = {"Eq": a == b, "Ne": a != b, "Lt": a < b, "Le": a <= b, "Gt": a > b, "Ge": a >= b}
            if op in table:
                return ("bool", table[op])
            arith = {"Add": a + b, "Sub": a - b, "Mul": a * b}
            if op in arith:
                return ("int", arith[op])
            if op in ("AddWithOverflow", "SubWithOverflow", "MulWithOverflow"):
                return ("tuple", [("int", arith[op[:3]]), ("bool", False)])
            return None
        if l[0] == "bool" and r[0] == "bool":
            table = {"Eq": l[1] == r[1], "Ne": l[1] != r[1], "BitAnd": l[1] and r[1], "BitOr": l[1] or r[1]}
            if op in table:
                return ("bool", table[op])
        return None

    # ---- calls
    def call(self, blk, t):
        callee = t.get("callee") or ""
        resolved = t.get("resolved") or ""
        args = [self.operand(a) for a in t["args"]]
        dv = [self.deref_val(a) for a in args]
        last = _last(callee)
        if re.search(EOF_READ, callee):
            # end of input: nothing is read, the buffer is left as it is
            return ("variant", "Ok", ("int", 0)) if "Async" not in callee else ("future", ("variant", "Ok", ("int", 0)))
        if re.search(r"(Read::read_exact|AsyncReadExt::read_exact)$", callee):
            # (a zero-length read_exact succeeds; the parsers only ask for fixed non-zero sizes or peer-claimed lengths)
            return ("variant", "Err", None) if "Async" not in callee else ("future", ("variant", "Err", None))
        if re.search(FRESH, callee) and "Vec" in callee or re.search(FRESH, callee):
            return EMPTY
        if re.search(CLEAR, callee):
            r = self.root(args[0]) if args else None
            if r is not None:
                self.env[r] = EMPTY
            return ("tuple", [])
        # appending nothing changes nothing (`line.extend_from_slice(prefix)` with an empty prefix)
        if last in ("extend_from_slice", "push_str", "append", "extend") and len(dv) > 1 and dv[1] == EMPTY:
            return ("tuple", [])
        # everything else that is handed a &mut to a tracked local may change it
        known_pure = re.search(IDENT, callee) or last in ("eq", "ne", "len", "is_empty", "from_utf8", "strip_suffix", "strip_prefix", "map_err", "ok",
                                                            "branch", "from_residual", "poll", "new_unchecked", "get_context", "from_str_radix", "parse",
                                                            "ok_or", "ok_or_else", "is_some", "is_none", "is_ok", "is_err", "unwrap_or", "and_then", "map", "filter", "cloned", "copied", "as_deref", "map_or",
                                                            "iter", "chars", "bytes", "all", "any", "starts_with", "ends_with", "contains", "first", "last", "count", "as_bytes", "to_vec", "find", "position")
        if not known_pure and not (resolved in self.prog.bodies):
            for a, ty in zip(args, t.get("arg_tys", [])):
                if ty.startswith("&mut") and a is not None and a[0] == "ref":
                    r = self.root(a)
                    if r is not None:
                        self.env[r] = None
        a0 = dv[0] if dv else None
        a1 = dv[1] if len(dv) > 1 else None
        if re.search(IDENT, callee):
            return a0 if a0 in (EMPTY,) or (a0 and a0[0] in ("lit", "future", "variant")) else None
        if last == "from_utf8" and a0 == EMPTY:
            return ("variant", "Ok", EMPTY)
        if last in ("eq", "ne") and a0 is not None and a1 is not None:
            def norm(x):
                return b"" if x == EMPTY else (x[1] if x[0] == "lit" else None)
            x, y = norm(a0), norm(a1)
            if x is not None and y is not None:
                return ("bool", (x == y) == (last == "eq"))
            if a0[0] == a1[0] == "int":
                return ("bool", (a0[1] == a1[1]) == (last == "eq"))
            return None
        if last in ("iter", "chars", "bytes", "into_iter", "char_indices", "lines", "split_whitespace", "as_bytes", "to_vec", "to_owned", "to_string", "to_lowercase", "to_uppercase",
                    "to_ascii_lowercase", "to_ascii_uppercase", "trim_matches", "trim_end_matches", "trim_start_matches", "rev", "by_ref", "peekable", "copied", "cloned") and a0 == EMPTY:
            return EMPTY
        if last == "all" and a0 == EMPTY:
            return ("bool", True)
        if last == "any" and a0 == EMPTY:
            return ("bool", False)
        if last in ("starts_with", "ends_with", "contains") and a0 == EMPTY and a1 is not None and a1[0] in ("lit", "int"):
            return ("bool", False)
        if last in ("first", "last", "next", "peek", "next_back", "find", "position", "split_once", "rsplit_once", "split_first", "split_last", "max", "min") and a0 == EMPTY:
            return ("variant", "None", None)
        if last == "count" and a0 == EMPTY:
            return ("int", 0)
        if last in ("then_some", "then") and a0 is not None and a0[0] == "bool":
            return ("variant", "Some", a1 if last == "then_some" else None) if a0[1] else ("variant", "None", None)
        if last == "len" and a0 == EMPTY:
            return ("int", 0)
        if last == "len" and a0 is not None and a0[0] == "lit" and isinstance(a0[1], (str, bytes)):
            return ("int", len(a0[1].encode() if isinstance(a0[1], str) else a0[1]))      # `CRLF.len()` of a named constant
        if last == "is_empty" and a0 == EMPTY:
            return ("bool", True)
        if last in ("strip_suffix", "strip_prefix") and a0 == EMPTY and a1 is not None and a1[0] in ("lit", "int"):
            return ("variant", "None", None)
        if last in ("from_str_radix", "parse") and a0 == EMPTY:
            return ("variant", "Err", None)
        if last == "map_err" and a0 is not None and a0[0] == "variant":
            return a0 if a0[1] == "Ok" else ("variant", "Err", None)
        if last == "ok" and a0 is not None and a0[0] == "variant":
            return ("variant", "Some", a0[2]) if a0[1] == "Ok" else ("variant", "None", None)
        if last in ("ok_or", "ok_or_else") and a0 is not None and a0[0] == "variant":
            return ("variant", "Ok", a0[2]) if a0[1] == "Some" else ("variant", "Err", None)
        if last in ("and_then", "map", "filter", "or", "zip", "cloned", "copied", "as_deref") and a0 is not None and a0[0] == "variant" and a0[1] in ("None", "Err") and last != "or":
            return ("variant", a0[1], None)
        if last == "map_or" and a0 is not None and a0[0] == "variant" and a0[1] in ("None", "Err") and len(dv) > 1:
            return dv[1]
        if last == "unwrap_or" and a0 is not None and a0[0] == "variant" and len(dv) > 1:
            return dv[1] if a0[1] in ("None", "Err") else a0[2]
        if last in ("is_some", "is_ok") and a0 is not None and a0[0] == "variant":
            return ("bool", a0[1] in ("Some", "Ok"))
        if last in ("is_none", "is_err") and a0 is not None and a0[0] == "variant":
            return ("bool", a0[1] in ("None", "Err"))
        if last == "branch" and a0 is not None and a0[0] == "variant":
            return ("variant", "Continue", a0[2]) if a0[1] in ("Ok", "Some") else ("variant", "Break", None)
        if last == "from_residual":
            dty = self.b.local_ty(t["dest"]["l"]) if t.get("dest") else ""
            if dty.startswith("std::option::Option"):
                return ("variant", "None", None)
            if dty.startswith("std::result::Result"):
                return ("variant", "Err", None)
            return None
        if last == "poll" and a0 is not None and a0[0] == "future":
            return ("variant", "Ready", a0[1])
        if last == "new_unchecked":
            return args[0]
        # a local function: execute it on the abstract arguments
        if resolved in self.prog.bodies and self.depth < 3:
            cb = self.prog.bodies[resolved]
            if cb.kind not in ("closure", "coroutine"):
                sub = Scenario(self.prog, cb, None, None, self.depth + 1, self.budget)
                for i, a in enumerate(args):
                    sub.env[i + 1] = self.deref_val(a) if (a is not None and a[0] == "ref") else a
                try:
                    return sub.run_to_return()
                except Undecided:
                    return None
        return None

    # ---- control flow
    def next_block(self, blk):
        t = self.b.term(blk)
        k = t["k"]
        if k in ("goto", "false_edge", "false_unwind", "drop", "assert"):
            return t["target"]
        if k == "call":
            v = self.call(blk, t)
            d = t.get("dest")
            if d is not None:
                if d["p"]:
                    self.env[d["l"]] = None
                else:
                    self.env[d["l"]] = v
            if t["target"] is None:
                return None
            return t["target"]
        if k == "switch":
            info = core.switch_info(self.prog, self.b, blk)
            v = self.deref_val(self.operand(t["discr"]))
            if v is None:
                raise Undecided(f"branch at {self.b.where(blk)}")
            if info["kind"] == "bool" and v[0] == "bool":
                return info["edges"]["true" if v[1] else "false"]
            if v[0] == "discr":
                if v[1] in info["edges"]:
                    return info["edges"][v[1]]
                raise Undecided(f"variant {v[1]} at {self.b.where(blk)}")
            if v[0] == "int":
                for val, tgt in t["targets"]:
                    if val == v[1]:
                        return tgt
                return t["otherwise"]
            if v[0] == "bool":
                for val, tgt in t["targets"]:
                    if val == int(v[1]):
                        return tgt
                return t["otherwise"]
            raise Undecided(f"branch at {self.b.where(blk)}")
        if k == "yield":
            return t["target"]
        return None     # return / unreachable / resume

    def exec_block(self, blk):
        for s in self.b.blocks[blk]["stmts"]:
            self.stmt(s)

    def run_to_return(self):
        blk = 0
        while True:
            self.budget[0] -= 1
            if self.budget[0] <= 0:
                raise Undecided("budget")
            self.exec_block(blk)
            t = self.b.term(blk)
            if t["k"] == "return":
                return self.env.get(0)
            nb = self.next_block(blk)
            if nb is None:
                raise Undecided("diverges")
            blk = nb

    def run_cycle(self, start, loop_nodes):
        """Start at the consuming call with an unknown store (plus the facts given in env);
        ('spin', trace) | ('exit', trace) | ('undecided', why)."""
        blk = start
        seen = 0
        while True:
            self.budget[0] -= 1
            if self.budget[0] <= 0:
                return "undecided", "step budget exhausted"
            self.trace.append(blk)
            if blk == start:
                seen += 1
                if seen >= 2:
                    return "spin", self.trace
                if self.buf is not None and self.fresh:
                    self.env[self.buf] = EMPTY
            self.exec_block(blk)
            t = self.b.term(blk)
            if t["k"] in ("return", "unreachable", "resume"):
                self.outcome = ("returned", self.env.get(0)) if t["k"] == "return" else ("stopped", blk)
                return "exit", self.trace
            try:
                nb = self.next_block(blk)
            except Undecided as e:
                return "undecided", str(e)
            if nb is None:
                self.outcome = ("stopped", blk)
                return "exit", self.trace
            if nb not in loop_nodes:
                self.outcome = self.after_loop(nb)
                return "exit", self.trace
            blk = nb

    def after_loop(self, blk):
        """What the EOF scenario does once it has left the loop: ("returned", abstract value) when the store decides every branch up to a
        return, else ("stopped", block) at the first undecided branch."""
        seen = set()
        while blk is not None and blk not in seen and self.budget[0] > 0:
            seen.add(blk)
            self.budget[0] -= 1
            self.exec_block(blk)
            t = self.b.term(blk)
            if t["k"] == "return":
                return ("returned", self.env.get(0))
            if t["k"] in ("unreachable", "resume"):
                return ("stopped", blk)
            try:
                nb = self.next_block(blk)
            except Undecided:
                return ("stopped", blk)
            if nb is None:
                return ("stopped", blk)
            blk = nb
        return ("stopped", blk)


def buffer_root(body, operand):
    """Root local of the `&mut buf` argument of a read (follows reborrows)."""
    l = core.op_local(operand)
    seen = set()
    while l is not None and l not in seen:
        seen.add(l)
        ds = body.defs().get(l, [])
        if len(ds) != 1 or ds[0][2] != "assign":
            return l
        rv = ds[0][3]["rv"]
        if rv["k"] in ("ref", "rawptr"):
            if any(e[0] != "d" for e in rv["pl"]["p"]):
                return rv["pl"]["l"]
            l = rv["pl"]["l"]
        elif rv["k"] in ("use", "cast") and core.op_local(rv["o"]) is not None:
            l = core.op_local(rv["o"])
        else:
            return l
    return l


def scan(prog, body, consuming=()):
    """[(call_block, verdict, detail)] for every call on a cycle of `body` that reads the input in an EOF-tolerant way:
    a direct read / read_until / read_line, or a call of a local function in `consuming` (executed abstractly)."""
    out = []
    cands = []
    for blk, t in body.calls():
        if core.call_matches(t, EOF_READ):
            cands.append((blk, t, True))
        elif (t.get("resolved") or "") in consuming:
            cands.append((blk, t, False))
    for r, t, direct in cands:
        fwd = body.reachable(body.succs(r))
        if r not in fwd:
            continue
        nodes = {n for n in fwd if r in body.reachable([n])} | {r}
        sc = Scenario(prog, body, r, None)
        if direct and len(t["args"]) > 1:
            buf = buffer_root(body, t["args"][-1])
            sc.buf = buf
            # is the buffer new / cleared on every cycle?  (every path r -> r passes a (re)initialisation of it)
            inits = []
            for b2, t2 in body.calls():
                if b2 not in nodes:
                    continue
                if re.search(FRESH, t2.get("callee") or "") and t2["dest"]["l"] == buf and not t2["dest"]["p"]:
                    inits.append(b2)
                if re.search(CLEAR, t2.get("callee") or "") and buffer_root(body, t2["args"][0]) == buf:
                    inits.append(b2)
            sc.fresh = bool(inits) and core.must_pass(body, [r], [r], through_nodes=inits) is None
        verdict, detail = sc.run_cycle(r, nodes)
        out.append(Result3((r, verdict, detail), sc.outcome))
    return out


class Result3(tuple):
    """(call_block, verdict, detail) with the scenario's outcome after the loop as an attribute"""
    def __new__(cls, t, outcome):
        o = super().__new__(cls, t)
        o.outcome = outcome
        return o

"""R-TABLE: extraction of finite maps from HIR `match` expressions."""
from .core import hir_find, hir_strip, hir_value, hir_walk, match_table

CTOR_ALIASES = {
    "std::prelude::v1::Ok": "Ok", "std::result::Result::Ok": "Ok",
    "std::prelude::v1::Err": "Err", "std::result::Result::Err": "Err",
    "std::prelude::v1::Some": "Some", "std::option::Option::Some": "Some",
    "std::prelude::v1::None": "None", "std::option::Option::None": "None",
}


def norm_path(p):
    return CTOR_ALIASES.get(p, p)


def unwrap(value, ctor):
    """('call', Ok, [x]) -> x when ctor == 'Ok'; else None."""
    if value and value[0] == "call" and norm_path(value[1]) == ctor and len(value[2]) == 1:
        return value[2][0]
    return None


def wraps_match_in_ok(prog, fn):
    """`let v = match x { a => V1, .., _ => return Err(e) }; Ok(v)`: every `Ok(..)` the function returns carries only enum variants
    chosen by the match (no call, no other data) — the table's arms may then be read as if each were written `Ok(Vi)`."""
    from . import core
    b = prog.bodies.get(fn)
    if b is None:
        return False
    n = 0
    for ob in core.ok_return_blocks(b, "Ok"):
        for s_ in b.blocks[ob]["stmts"]:
            rv = s_.get("rv")
            if rv and rv.get("k") == "agg" and rv.get("variant") == "Ok" and s_["pl"]["l"] == 0 and not s_["pl"]["p"] and rv["ops"]:
                d = core.describe(prog, b, rv["ops"][0])
                alts = d[1] if isinstance(d, tuple) and d[0] == "multi" else [d]
                if not all(isinstance(a, tuple) and a[0] == "variant" and not a[3] for a in alts):
                    return False
                n += 1
    return n > 0


def unwrap_arm(prog, fn, value, ctor="Ok"):
    """unwrap(value, ctor), or the bare variant path of an arm of a match whose result the function wraps in Ok(..) afterwards"""
    inner = unwrap(value, ctor)
    if inner is not None:
        return inner
    if value and value[0] == "path" and ctor == "Ok" and wraps_match_in_ok(prog, fn):
        return value
    return None


def is_err_arm(value):
    """`Err(e)` as the arm's value, or `return Err(e)` from the arm"""
    if value and value[0] == "ret":
        value = value[1]
    return bool(value) and value[0] == "call" and norm_path(value[1]) == "Err"


def variant_map_mir(prog, fn):
    """{variant name: description of the value returned for it} for a function `fn(v: Enum) -> value`, read off the MIR: the returned value
    (or the tuple component that is returned) is a merge of per-arm values, and each arm's definition block is dominated by exactly one edge
    of the switch on the parameter's discriminant.  None when the function does not have that shape.  Helpers new to the tree are inlined, so
    `u16::from(v)` -> `v.code()` -> `v.parts().0` over one shared `match` reads like the table it replaced."""
    from . import core
    b = prog.bodies.get(fn)
    if b is None:
        return None
    d = core.describe(prog, b, 0)
    idx = None
    for _ in range(3):
        if isinstance(d, tuple) and d[0] == "field" and isinstance(d[1], tuple) and isinstance(d[2], int) and idx is None and d[1][0] == "multi":
            idx, d = d[2], d[1]
        elif isinstance(d, tuple) and d[0] == "call" and core.re.search(r"(::|>::)(into|from|clone|deref|as_ref)$", d[1]) and d[2]:
            d = d[2][0]
        else:
            break
    if not (isinstance(d, tuple) and d[0] == "multi" and len(d) > 4 and len(d[1]) == len(d[4])):
        return None
    out = {}
    for alt, db in zip(d[1], d[4]):
        if idx is not None:
            if not (isinstance(alt, tuple) and alt[0] == "tuple" and idx < len(alt[1])):
                return None
            alt = alt[1][idx]
        labs = [lab for s_, lab, gd, info in core.guards_dominating(prog, b, db)
                if info and info.get("kind") == "enum" and info.get("src") is not None and isinstance(gd, tuple) and core.desc_contains(gd, lambda y: y[0] == "param" and y[1] == 1)]
        if len(labs) != 1 or labs[0] in out:
            return None
        out[labs[0]] = alt
    return out


def scrutinee_chain(m):
    """Method names applied on the way from the base expression to the scrutinee, and the base."""
    e = hir_strip(m["scrut"])
    chain = []
    while isinstance(e, dict):
        if e.get("e") == "MethodCall":
            chain.append(e.get("path") or e.get("name"))
            e = hir_strip(e["recv"])
        elif e.get("e") in ("Field",):
            chain.append("." + e.get("name"))
            e = hir_strip(e["x"])
        else:
            break
    base = None
    if isinstance(e, dict) and e.get("e") == "Path":
        base = e.get("name") if e.get("res") == "Local" else e.get("path")
    return list(reversed(chain)), base


def param_names(h):
    out = []
    for p in h.get("params", []):
        if p.get("p") == "Bind":
            out.append(p["name"])
        else:
            for n in hir_walk(p):
                if n.get("p") == "Bind":
                    out.append(n["name"])
    return out


def fn_tables(prog, fnpath):
    """All Match nodes in a fn, largest first."""
    h = prog.hir.get(fnpath)
    if not h:
        return []
    ms = hir_find(h["body"], "Match")
    # helpers that are new relative to the pinned tree were inlined into this fn (hv/inline.py): their tables count as its own
    for helper in getattr(prog, "inlined", {}).get(fnpath, []):
        hh = prog.hir.get(helper)
        if hh:
            ms = ms + hir_find(hh["body"], "Match")
    ms = [m for m in ms if m.get("src") == "Normal"]
    ms.sort(key=lambda m: -len(m["arms"]))
    return ms


def main_table(prog, fnpath, on_param=True):
    h = prog.hir.get(fnpath)
    if not h:
        return None
    params = set(param_names(h))
    for m in fn_tables(prog, fnpath):
        chain, base = scrutinee_chain(m)
        if not on_param or base in params or base == "self":
            return m
    return None


def simple_map(m, key_kinds=("lit", "path")):
    """dict key -> value for arms with single-valued keys, plus list of rest/other arms.

    Arms are evaluated in order: a key already bound by an earlier arm is ignored (first match wins)."""
    mp = {}
    rest = []
    dup = []
    for keys, guard, value, line, arm in match_table(m):
        if guard is not None:
            rest.append((keys, guard, value, line))
            continue
        for k in keys:
            if k[0] in key_kinds:
                kk = norm_path(k[1]) if k[0] == "path" else k[1]
                if kk in mp:
                    dup.append(kk)
                else:
                    mp[kk] = value
            else:
                rest.append(([k], None, value, line))
    return mp, rest, dup


def variant_name(path):
    return path.rsplit("::", 1)[-1] if isinstance(path, str) else path

"""Obligation bookkeeping, known findings, evidence and exit protocol."""
import json
import os
import sys
import time

VERIF = os.path.dirname(os.path.dirname(os.path.abspath(__file__)))
KNOWN = os.path.join(VERIF, "known_findings.json")
EVID = os.environ.get("HV_EVIDENCE_DIR") or os.path.join(VERIF, "evidence")


def load_known():
    try:
        with open(KNOWN) as fh:
            d = json.load(fh)
    except FileNotFoundError:
        return {}
    out = {}
    for f in d.get("findings", []):
        out[(f["property"], f["key"])] = f
    return out


class Check:
    def __init__(self, pid, tier="quick", seed=0):
        self.pid = pid
        self.tier = tier
        self.seed = seed
        self.t0 = time.time()
        self.obligations = []      # dicts
        self.violations = []       # dicts
        self.known_hit = []
        self.rules = {}            # rule id -> description
        self.floors = {}
        self.programs = []
        self.functions = set()
        self.call_sites = 0
        self.assumptions = []
        self.explanation = ""
        self.not_decided = ""
        self.selftest = []
        self.extra = {}
        self.known = load_known()

    # ---- registration
    def rule(self, rid, text):
        self.rules[rid] = text

    def use(self, prog):
        if prog not in self.programs:
            self.programs.append(prog)
        return prog

    def saw_fn(self, path):
        self.functions.add(path)

    # ---- obligations
    def ob(self, rule, fn, site, ok, detail="", where="", cfg=None, path=None):
        """Record one obligation. `site` is a position-free fingerprint."""
        key = f"{rule}|{fn}|{site}" if cfg is None else f"{rule}|{cfg}|{fn}|{site}"
        rec = {"rule": rule, "fn": fn, "site": site, "ok": bool(ok), "where": where, "key": key}
        if detail:
            rec["detail"] = detail
        if path:
            rec["path"] = path
        self.obligations.append(rec)
        self.functions.add(fn)
        if not ok:
            k = (self.pid, key)
            if k in self.known:
                rec["known_finding"] = True
                self.known_hit.append((key, self.known[k]))
            else:
                self.violations.append(rec)
        return bool(ok)

    def floor(self, name, found, floor, where=""):
        """Fail closed when fewer anchors/instances are found than were confirmed by reading."""
        self.floors[name] = {"found": found, "floor": floor}
        return self.ob("anchor", name, f"count>={floor}", found >= floor,
                       detail=f"found {found} instance(s) of '{name}', expected at least {floor} "
                              f"(anchor-missing: the rule would otherwise pass vacuously)", where=where)

    # ---- finish
    def finish(self):
        wall = time.time() - self.t0
        os.makedirs(EVID, exist_ok=True)
        n_ob = len(self.obligations)
        n_ok = sum(1 for o in self.obligations if o["ok"])
        known_keys = sorted(set(k for k, _ in self.known_hit))
        by_rule = {}
        for o in self.obligations:
            r = by_rule.setdefault(o["rule"], {"obligations": 0, "discharged": 0, "known_findings": 0, "violations": 0})
            r["obligations"] += 1
            if o["ok"]:
                r["discharged"] += 1
            elif o.get("known_finding"):
                r["known_findings"] += 1
            else:
                r["violations"] += 1
        samples = []
        seen_rules = set()
        for o in self.obligations:
            if o["rule"] not in seen_rules or not o["ok"]:
                seen_rules.add(o["rule"])
                samples.append({k: o[k] for k in ("rule", "fn", "site", "ok", "where") if k in o} |
                               ({"detail": o["detail"]} if "detail" in o else {}))
            if len(samples) >= 60:
                break
        cov = {
            "explanation": self.explanation,
            "not_decided": self.not_decided,
            "configs": [{"config": p.config, "digest": p.digest, "crates": p.crates,
                         "bodies": len(p.bodies), "cargo_args": p.info.get("cargo_args"),
                         "extraction_cached": p.info.get("cached", False)} for p in self.programs],
            "bodies_total": sum(len(p.bodies) for p in self.programs),
            "functions_analysed": len(self.functions),
            "call_sites_examined": self.call_sites,
            "obligations": n_ob,
            "discharged": n_ok,
            "known_findings": known_keys,
            "rule_instances": [{"rule": r, "text": self.rules.get(r, ""), **c} for r, c in sorted(by_rule.items())],
            "floors": self.floors,
            "samples": samples,
            "evaluations": n_ob,
            "distinct_nontrivial": len(set(o["key"] for o in self.obligations if o["rule"] != "anchor")),
            "rule": "one evaluation = one statically decided obligation (rule instance at a site keyed by a position-free fingerprint); distinct = distinct keys excluding anchor-count floors",
            "exhaustive": False,
        }
        if self.selftest:
            cov["selftest"] = self.selftest
        cov.update(self.extra)
        ev = {
            "property_id": self.pid,
            "tier": self.tier,
            "seed": self.seed,
            "level": "other",
            "coverage": cov,
            "assumptions": self.assumptions,
            "wall_s": round(wall, 2),
            "violations": len(self.violations),
        }
        tmp = os.path.join(EVID, f"{self.pid}.json.tmp")
        with open(tmp, "w") as fh:
            json.dump(ev, fh, indent=1)
        os.replace(tmp, os.path.join(EVID, f"{self.pid}.json"))

        print(f"[{self.pid}] tier={self.tier} configs={[p.config for p in self.programs]} "
              f"obligations={n_ob} discharged={n_ok} known={len(known_keys)} violations={len(self.violations)} "
              f"wall={wall:.1f}s")
        for r, c in sorted(by_rule.items()):
            print(f"  {r:28s} {c['discharged']}/{c['obligations']} discharged"
                  + (f", {c['known_findings']} known finding(s)" if c["known_findings"] else "")
                  + (f", {c['violations']} VIOLATION(s)" if c["violations"] else ""))
        done = set()
        for key, f in self.known_hit:
            if key in done:
                continue
            done.add(key)
            print(f"KNOWN-FINDING: property={self.pid} {f.get('what', key)} [key={key}]")
        if self.violations:
            rdir = os.path.join(EVID, "reports")
            os.makedirs(rdir, exist_ok=True)
            rpath = os.path.join(rdir, f"{self.pid}.json")
            with open(rpath, "w") as fh:
                json.dump({"property": self.pid, "violations": self.violations}, fh, indent=1)
            for v in self.violations:
                print(f"  violation: rule={v['rule']} fn={v['fn']} site={v['site']} at {v.get('where','?')}: {v.get('detail','')}")
                if v.get("path"):
                    print(f"    path: {v['path']}")
            print(f"VIOLATION property={self.pid} replay={rpath}")
            return 1
        return 0

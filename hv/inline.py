"""Normalisation: helper functions that did not exist on the tree the rules were anchored on are inlined into their callers.

Most rules are intraprocedural (must-pass-through, dominance, value descriptions).  An "extract method" refactoring moves part of
an anchored function into a new private helper and would make such a rule lose sight of it — in both directions: a harmless
refactoring would look like a missing step, and a defect could hide in the helper.  Before any rule runs, every call whose resolved
callee is a workspace function *not listed in oracles/known_fns.json* (the functions of the pinned tree) is therefore replaced by the
callee's body (locals and blocks renumbered, arguments assigned to the parameters, `return` turned into an assignment of the
destination and a jump to the call's successor), transitively up to depth 4 and 60 inlinings per body, never recursively.
Functions that exist on the pinned tree are never inlined: rules that name them keep their anchors.
"""
import copy
import re
import json
import os

VERIF = os.path.dirname(os.path.dirname(os.path.abspath(__file__)))
KNOWN = os.path.join(VERIF, "oracles", "known_fns.json")
MAX_DEPTH = 4
MAX_PER_BODY = 60


def load_known():
    try:
        with open(KNOWN) as fh:
            return set(json.load(fh)["functions"])
    except (OSError, ValueError, KeyError):
        return None


def load_known_combinators():
    """({function: combinators it uses on the pinned tree}, combinators that were not yet in the table when the baseline was recorded —
    those are never lowered: whether a function already used them is unknown)."""
    try:
        with open(KNOWN) as fh:
            j = json.load(fh)
        return {k: set(v) for k, v in j.get("combinators", {}).items()}, (set(COMBINATORS) | {CLOSURE_CALL}) - set(j.get("combinator_table", []))
    except (OSError, ValueError, KeyError):
        return {}, set(COMBINATORS) | {CLOSURE_CALL}


# --------------------------------------------------------------------------------------------
# Option / Result combinators lowered to the `match` they stand for
# --------------------------------------------------------------------------------------------
# A refactoring between `match` / `if let` / `?` and the combinator spelling of the same decision (`and_then`, `or_else`, `map_or`, ...)
# changes nothing a user can observe, but it moves the decision out of the control-flow graph into std and the arms into closures.
# Combinator calls a function did not already make on the pinned tree (oracles/known_fns.json: "combinators") are therefore rewritten
# into a switch on the receiver's discriminant; closure arguments are inlined at the arm that calls them.
# Per input variant: ("call", arg index of F, passes payload, wrap result in variant or None) | ("wrap", variant) re-wraps the payload |
# ("unit", variant) a field-less variant | ("payload",) the payload itself | ("arg", i) the i-th argument | ("lit", v) a constant.
OPT, RES = "std::option::Option", "std::result::Result"
COMBINATORS = {
    "std::option::Option::<T>::and_then": (OPT, {"Some": ("call", 1, True, None), "None": ("unit", OPT, "None")}),
    "std::option::Option::<T>::or_else": (OPT, {"Some": ("wrap", OPT, "Some"), "None": ("call", 1, False, None)}),
    "std::option::Option::<T>::map": (OPT, {"Some": ("call", 1, True, (OPT, "Some")), "None": ("unit", OPT, "None")}),
    "std::option::Option::<T>::unwrap_or_else": (OPT, {"Some": ("payload",), "None": ("call", 1, False, None)}),
    "std::option::Option::<T>::unwrap_or": (OPT, {"Some": ("payload",), "None": ("arg", 1)}),
    "std::option::Option::<T>::map_or": (OPT, {"Some": ("call", 2, True, None), "None": ("arg", 1)}),
    "std::option::Option::<T>::map_or_else": (OPT, {"Some": ("call", 2, True, None), "None": ("call", 1, False, None)}),
    "std::option::Option::<T>::ok_or": (OPT, {"Some": ("wrap", RES, "Ok"), "None": ("wraparg", RES, "Err", 1)}),
    "std::option::Option::<T>::ok_or_else": (OPT, {"Some": ("wrap", RES, "Ok"), "None": ("call", 1, False, (RES, "Err"))}),
    "std::option::Option::<T>::is_some_and": (OPT, {"Some": ("call", 1, True, None), "None": ("lit", False)}),
    "std::option::Option::<T>::filter": (OPT, {"Some": ("filter", 1), "None": ("unit", OPT, "None")}),
    "std::option::Option::<T>::is_none_or": (OPT, {"Some": ("call", 1, True, None), "None": ("lit", True)}),
    "std::result::Result::<T, E>::map": (RES, {"Ok": ("call", 1, True, (RES, "Ok")), "Err": ("wrap", RES, "Err")}),
    "std::result::Result::<T, E>::map_err": (RES, {"Ok": ("wrap", RES, "Ok"), "Err": ("call", 1, True, (RES, "Err"))}),
    "std::result::Result::<T, E>::and_then": (RES, {"Ok": ("call", 1, True, None), "Err": ("wrap", RES, "Err")}),
    "std::result::Result::<T, E>::or_else": (RES, {"Ok": ("wrap", RES, "Ok"), "Err": ("call", 1, True, None)}),
    "std::result::Result::<T, E>::unwrap_or_else": (RES, {"Ok": ("payload",), "Err": ("call", 1, True, None)}),
    "std::result::Result::<T, E>::unwrap_or": (RES, {"Ok": ("payload",), "Err": ("arg", 1)}),
    "std::result::Result::<T, E>::map_or": (RES, {"Ok": ("call", 2, True, None), "Err": ("arg", 1)}),
    "std::result::Result::<T, E>::map_or_else": (RES, {"Ok": ("call", 2, True, None), "Err": ("call", 1, True, None)}),
    "std::result::Result::<T, E>::ok": (RES, {"Ok": ("wrap", OPT, "Some"), "Err": ("unit", OPT, "None")}),
    "std::result::Result::<T, E>::err": (RES, {"Ok": ("unit", OPT, "None"), "Err": ("wrap", OPT, "Some")}),
    "std::result::Result::<T, E>::is_ok_and": (RES, {"Ok": ("call", 1, True, None), "Err": ("lit", False)}),
    "std::result::Result::<T, E>::is_err_and": (RES, {"Ok": ("lit", False), "Err": ("call", 1, True, None)}),
}
VIDX = {(OPT, "None"): 0, (OPT, "Some"): 1, (RES, "Ok"): 0, (RES, "Err"): 1}
CTORS = {"std::prelude::v1::Some": (OPT, "Some"), "std::prelude::v1::Ok": (RES, "Ok"), "std::prelude::v1::Err": (RES, "Err")}


def owner_fn(path):
    """The function a closure / coroutine / promoted body belongs to."""
    for marker in ("::{closure#", "::{coroutine#", "::promoted[", "::{constant#"):
        i = path.find(marker)
        if i >= 0:
            path = path[:i]
    return path


def combinator_of(t):
    for name in (t.get("resolved"), t.get("callee")):
        if name in COMBINATORS:
            return name
    return None


def _agg(adt, variant, ops):
    return {"k": "agg", "agg": "adt", "adt": adt, "variant": variant, "vidx": VIDX[(adt, variant)], "fields": ["0"] if ops else [], "ops": ops}


def _mv(l):
    return {"k": "move", "pl": {"l": l, "p": []}}


def _closure_def(raw, op, depth=0):
    """(closure def path, local holding the closure) when operand `op` is a closure value built in this body (possibly handed on through
    plain copies / moves of the closure value), else None."""
    if not op or op.get("k") not in ("move", "copy") or op["pl"]["p"]:
        return None
    l = op["pl"]["l"]
    found = None
    via = None
    for blk in raw["blocks"]:
        for st in blk["stmts"]:
            if "pl" in st and st["pl"]["l"] == l and not st["pl"]["p"]:
                rv = st["rv"]
                if rv.get("k") == "agg" and rv.get("agg") == "closure" and rv.get("def"):
                    if found is not None or via is not None:
                        return None
                    found = rv["def"]
                elif rv.get("k") == "use" and rv["o"].get("k") in ("move", "copy") and not rv["o"]["pl"]["p"] and depth < 4:
                    if found is not None or via is not None:
                        return None
                    via = rv["o"]
                else:
                    return None
        t = blk["term"]
        if t and t.get("k") == "call" and t.get("dest") and t["dest"]["l"] == l and not t["dest"]["p"]:
            return None
    if via is not None:
        return _closure_def(raw, via, depth + 1)
    return (found, l) if found else None


def _resolve_closure_calls(raws, raw):
    """Give unresolved `Fn* :: call*` terminators whose callee operand is a closure value built in this body their closure as `resolved`."""
    n = 0
    for blk in raw["blocks"]:
        t = blk["term"]
        # `text.parse::<T>()` with a `FromStr for T` of this crate that is new relative to the pinned tree: std's `parse` does nothing but call it
        if t and t.get("k") == "call" and (t.get("callee") or "").endswith("str::<impl str>::parse") and len(t.get("gargs") or []) == 1 and len(t.get("args") or []) == 1:
            cand = f"<{t['gargs'][0]} as std::str::FromStr>::from_str"
            known_ = _KNOWN_FNS[0]
            if cand in raws and known_ is not None and cand not in known_:
                t["callee"] = cand
                t["resolved"] = cand
                n += 1
            continue
        if not t or t.get("k") != "call" or not re.search(r"^std::ops::(Fn|FnMut|FnOnce)::call(_mut|_once)?$", t.get("callee") or ""):
            continue
        if t.get("resolved") in raws or not t.get("args"):
            continue
        op = t["args"][0]
        # `Fn::call(&f, ..)`: look through the reference
        for _ in range(3):
            if op.get("k") in ("move", "copy") and not op["pl"]["p"]:
                l = op["pl"]["l"]
                refs = [st["rv"] for b2 in raw["blocks"] for st in b2["stmts"] if "pl" in st and st["pl"]["l"] == l and not st["pl"]["p"]]
                if len(refs) == 1 and refs[0].get("k") == "ref" and not refs[0]["pl"]["p"]:
                    op = {"k": "copy", "pl": {"l": refs[0]["pl"]["l"], "p": []}}
                    continue
            break
        cd = _closure_def(raw, op)
        if cd and cd[0] in raws and raws[cd[0]].get("kind") == "closure":
            t["resolved"] = cd[0]
            n += 1
            continue
        # a function item handed over by name (`self.nested(Self::parse_array_body)`): the call is a direct call of that function with the
        # members of the argument tuple
        fi = _fn_item(raw, op)
        if fi and fi in raws and len(t["args"]) == 2:
            tup = t["args"][1]
            ops = None
            if tup.get("k") in ("move", "copy") and not tup["pl"]["p"]:
                defs = [st["rv"] for b2 in raw["blocks"] for st in b2["stmts"] if "pl" in st and st["pl"]["l"] == tup["pl"]["l"] and not st["pl"]["p"]]
                if len(defs) == 1 and defs[0].get("k") == "agg" and defs[0].get("agg") == "tuple":
                    ops = copy.deepcopy(defs[0]["ops"])
            if ops is not None:
                t["callee"] = fi
                t["resolved"] = fi
                t["args"] = ops
                t.pop("arg_tys", None)
                n += 1
    return n


def _fn_item(raw, op, depth=0):
    """path of the function when the operand is a function item (a zero-sized constant), possibly handed on through plain copies"""
    if not op or depth > 4:
        return None
    if op.get("k") == "const":
        return op.get("fn")
    if op.get("k") not in ("move", "copy") or op["pl"]["p"]:
        return None
    l = op["pl"]["l"]
    defs = [st["rv"] for b2 in raw["blocks"] for st in b2["stmts"] if "pl" in st and st["pl"]["l"] == l and not st["pl"]["p"]]
    if len(defs) != 1 or defs[0].get("k") != "use":
        return None
    return _fn_item(raw, defs[0]["o"], depth + 1)


CLOSURE_CALL = "hv::closure_call"
TRACKED = None   # set below: the combinator table plus the closure-call pseudo entry


def closure_call_of(raws, raw, t):
    """closure path when the call is a direct call of a closure of this crate built in this body: `f(x)` with `let f = |x| ..`"""
    callee = t.get("callee") or ""
    if not re.search(r"^std::ops::(Fn|FnMut|FnOnce)::call(_mut|_once)?$", callee):
        return None
    r = t.get("resolved")
    if not r or r not in raws or "{closure#" not in r.rsplit("::", 1)[-1] or raws[r].get("kind") not in ("closure",):
        return None
    if any(b["term"] and b["term"]["k"] == "yield" for b in raws[r]["blocks"]):
        return None
    args = t.get("args") or []
    if len(args) != 2 or args[0].get("k") not in ("move", "copy") or t.get("target") is None or t.get("dest") is None:
        return None
    if args[1].get("k") not in ("move", "copy", "const") or (args[1].get("k") != "const" and args[1]["pl"]["p"]):
        return None
    # not recursive
    if any(b["term"] and b["term"].get("k") == "call" and b["term"].get("resolved") == r for b in raws[r]["blocks"]):
        return None
    return r


AWAITED = "hv::awaited_async_helper"
_KNOWN_FNS = [None]


def awaited_coroutine_of(raws, raw, t):
    """body path of the coroutine when the call polls the future of an `async fn` that is new relative to the pinned tree (`helper(..).await`):
    the helper's body then runs in place of the poll, its own `.await`s keeping their yields"""
    callee = t.get("callee") or ""
    if not callee.endswith("Future::poll"):
        return None
    r = t.get("resolved")
    if not r or r not in raws or raws[r].get("kind") != "coroutine" or not r.endswith("::{closure#0}"):
        return None
    known = _KNOWN_FNS[0]
    if known is None or owner_fn(r) in known:
        return None
    if raw.get("kind") != "coroutine" or t.get("target") is None or t.get("dest") is None or len(t.get("args") or []) != 2:
        return None
    if any(b["term"] and b["term"].get("k") == "call" and b["term"].get("resolved") == r for b in raws[r]["blocks"]):
        return None
    return r


def _inline_awaited(raws, cur, blk, t, cpath):
    callee = raws[cpath]
    line = t.get("line", cur.get("line"))
    off_l, off_b = len(cur["locals"]), len(cur["blocks"])
    cur["locals"].extend(copy.deepcopy(callee["locals"]))
    nbs = _renumber(callee["blocks"], off_l, off_b)
    for nb in nbs:
        nb["file"] = callee.get("file")
        nb["from_closure"] = cpath
        if nb["term"] and nb["term"]["k"] == "return":
            nb["term"] = {"k": "goto", "target": -1, "line": nb["term"].get("line", line)}
    cur["blocks"].extend(nbs)
    ready = {"k": "agg", "agg": "adt", "adt": "std::task::Poll", "variant": "Ready", "vidx": 0, "fields": ["0"], "ops": [_mv(off_l)]}
    cur["blocks"].append({"cleanup": False, "stmts": [{"pl": copy.deepcopy(t["dest"]), "rv": ready, "line": line}],
                          "term": {"k": "goto", "target": t["target"], "line": line}, "lowered": AWAITED})
    fin = len(cur["blocks"]) - 1
    for nb in nbs:
        if nb["term"] and nb["term"]["k"] == "goto" and nb["term"]["target"] == -1:
            nb["term"]["target"] = fin
    blk["stmts"] = blk["stmts"] + [{"pl": {"l": off_l + 1, "p": []}, "rv": {"k": "use", "o": copy.deepcopy(t["args"][0])}, "line": line},
                                   {"pl": {"l": off_l + 2, "p": []}, "rv": {"k": "use", "o": copy.deepcopy(t["args"][1])}, "line": line}]
    # the poll's result is Ready on every path now: the `Pending => yield, poll again` arm of the await loop is dead; cut it, so that the
    # control-flow graph has no cycle through the inlined body that the program cannot take
    dl = t["dest"]["l"] if not t["dest"]["p"] else None
    nb_i, hops = t["target"], 0
    while dl is not None and nb_i is not None and hops < 6:
        hops += 1
        nb = cur["blocks"][nb_i]
        tt = nb["term"]
        if tt and tt.get("k") == "switch":
            reads = any(st.get("rv", {}).get("k") == "discr" and st["rv"]["pl"]["l"] == dl for st in nb["stmts"] if "rv" in st)
            ready = [tg for v, tg in tt.get("targets", []) if v == 0]
            if reads and ready:
                nb["term"] = {"k": "goto", "target": ready[0], "line": tt.get("line", line), "lowered": AWAITED}
            break
        if tt and tt.get("k") in ("goto", "false_edge", "drop") and tt.get("target") is not None:
            nb_i = tt["target"]
            continue
        break
    blk["term"] = {"k": "goto", "target": off_b, "line": line, "inlined": cpath}


def _inline_closure_call(raws, cur, blk, t, cpath):
    callee = raws[cpath]
    line = t.get("line", cur.get("line"))
    off_l, off_b = len(cur["locals"]), len(cur["blocks"])
    cur["locals"].extend(copy.deepcopy(callee["locals"]))
    nbs = _renumber(callee["blocks"], off_l, off_b)
    for nb in nbs:
        nb["file"] = callee.get("file")
        nb["from_closure"] = cpath
        if nb["term"] and nb["term"]["k"] == "return":
            nb["term"] = {"k": "goto", "target": -1, "line": nb["term"].get("line", line)}
    cur["blocks"].extend(nbs)
    cur["blocks"].append({"cleanup": False, "stmts": [{"pl": copy.deepcopy(t["dest"]), "rv": {"k": "use", "o": _mv(off_l)}, "line": line}],
                          "term": {"k": "goto", "target": t["target"], "line": line}, "lowered": CLOSURE_CALL})
    fin = len(cur["blocks"]) - 1
    for nb in nbs:
        if nb["term"] and nb["term"]["k"] == "goto" and nb["term"]["target"] == -1:
            nb["term"]["target"] = fin
    stmts = [{"pl": {"l": off_l + 1, "p": []}, "rv": {"k": "use", "o": copy.deepcopy(t["args"][0])}, "line": line}]
    tup = t["args"][1]
    nparams = (callee.get("argc") or 1) - 1
    if tup.get("k") != "const":
        for i in range(nparams):
            pty = callee["locals"][2 + i].get("ty", "_") if 2 + i < len(callee["locals"]) else "_"
            stmts.append({"pl": {"l": off_l + 2 + i, "p": []}, "rv": {"k": "use", "o": {"k": "move", "pl": {"l": tup["pl"]["l"], "p": [["f", i, pty]]}}}, "line": line})
    blk["stmts"] = blk["stmts"] + stmts
    blk["term"] = {"k": "goto", "target": off_b, "line": line, "inlined": cpath}


def lower_body(raws, path, raw, skip):
    """Rewrites the combinator calls of one body (those not in `skip`); returns (new_raw, [lowered callee names])."""
    out = None
    done = []
    bi = 0
    while bi < len((out or raw)["blocks"]):
        cur = out or raw
        blk = cur["blocks"][bi]
        t = blk["term"]
        bi += 1
        if not t or t.get("k") != "call" or blk.get("cleanup"):
            continue
        aw = awaited_coroutine_of(raws, cur, t)
        if aw is not None:
            if out is None:
                out = copy.deepcopy(raw)
                cur = out
                blk = cur["blocks"][bi - 1]
                t = blk["term"]
            _inline_awaited(raws, cur, blk, t, aw)
            done.append(AWAITED)
            continue
        cc = closure_call_of(raws, cur, t) if CLOSURE_CALL not in skip else None
        if cc is not None:
            if out is None:
                out = copy.deepcopy(raw)
                cur = out
                blk = cur["blocks"][bi - 1]
                t = blk["term"]
            _inline_closure_call(raws, cur, blk, t, cc)
            done.append(CLOSURE_CALL)
            continue
        name = combinator_of(t)
        if name is None or name in skip or t.get("target") is None or t.get("dest") is None:
            continue
        adt, arms = COMBINATORS[name]
        args = t["args"]
        recv = args[0]
        if recv.get("k") not in ("move", "copy"):
            continue
        # every closure argument must be a closure of this crate built in this body, or a function item
        plan = {}
        ok = True
        for variant, act in arms.items():
            is_filter = act[0] == "filter"
            if is_filter:
                act = ("call", act[1], True, None)
            if act[0] != "call":
                continue
            if is_filter and act[1] < len(args) and args[act[1]].get("k") == "const":
                ok = False          # a function item as the predicate: left as it is
                break
            if act[1] >= len(args):
                ok = False
                break
            f = args[act[1]]
            if f.get("k") == "const" and f.get("fn"):
                plan[variant] = ("fn", f["fn"])
                continue
            cd = _closure_def(cur, f)
            if cd is None or cd[0] not in raws or raws[cd[0]].get("argc") != (2 if act[2] else 1):
                ok = False
                break
            if any(b["term"] and b["term"]["k"] == "yield" for b in raws[cd[0]]["blocks"]):
                ok = False
                break
            plan[variant] = ("closure", cd[0], cd[1])
        if not ok or any(a[0] in ("arg", "wraparg") and a[-1] >= len(args) for a in arms.values()):
            continue
        if out is None:
            out = copy.deepcopy(raw)
            cur = out
            blk = cur["blocks"][bi - 1]
            t = blk["term"]
            args = t["args"]
            recv = args[0]
        line = t.get("line", cur.get("line"))
        dest, target, unwind = t["dest"], t["target"], t.get("unwind")

        def new_local(ty):
            cur["locals"].append({"ty": ty})
            return len(cur["locals"]) - 1

        def new_block(stmts, term):
            cur["blocks"].append({"cleanup": False, "stmts": stmts, "term": term, "lowered": name})
            return len(cur["blocks"]) - 1
        # the receiver is kept in a fresh local so that the arms can project out of it
        x = new_local((t.get("arg_tys") or ["_"])[0])
        d = new_local("isize")
        arm_blocks = {}
        for variant, act in arms.items():
            vi = VIDX[(adt, variant)]
            has_payload = not (adt == OPT and variant == "None")
            payload = None
            stmts = []
            if has_payload and (act[0] in ("wrap", "payload", "filter") or (act[0] == "call" and act[2])):
                payload = new_local("_")
                stmts.append({"pl": {"l": payload, "p": []}, "rv": {"k": "use", "o": {"k": "move", "pl": {"l": x, "p": [["dc", variant, vi], ["f", 0, "_"]]}}}, "line": line})
            goto_t = {"k": "goto", "target": target, "line": line}
            if act[0] == "wrap":
                stmts.append({"pl": copy.deepcopy(dest), "rv": _agg(act[1], act[2], [_mv(payload)]), "line": line})
                arm_blocks[variant] = new_block(stmts, goto_t)
            elif act[0] == "unit":
                stmts.append({"pl": copy.deepcopy(dest), "rv": _agg(act[1], act[2], []), "line": line})
                arm_blocks[variant] = new_block(stmts, goto_t)
            elif act[0] == "payload":
                stmts.append({"pl": copy.deepcopy(dest), "rv": {"k": "use", "o": _mv(payload)}, "line": line})
                arm_blocks[variant] = new_block(stmts, goto_t)
            elif act[0] == "arg":
                stmts.append({"pl": copy.deepcopy(dest), "rv": {"k": "use", "o": copy.deepcopy(args[act[1]])}, "line": line})
                arm_blocks[variant] = new_block(stmts, goto_t)
            elif act[0] == "wraparg":
                stmts.append({"pl": copy.deepcopy(dest), "rv": _agg(act[1], act[2], [copy.deepcopy(args[act[3]])]), "line": line})
                arm_blocks[variant] = new_block(stmts, goto_t)
            elif act[0] == "lit":
                stmts.append({"pl": copy.deepcopy(dest), "rv": {"k": "use", "o": {"k": "const", "ty": "bool", "v": act[1], "repr": "const " + str(act[1]).lower()}}, "line": line})
                arm_blocks[variant] = new_block(stmts, goto_t)
            elif act[0] == "filter" and plan[variant][0] == "closure":
                # Some(v) -> if pred(&v) { Some(v) } else { None }
                res = new_local("bool")
                rf = new_local("&_")
                keep_b = new_block([{"pl": copy.deepcopy(dest), "rv": _agg(OPT, "Some", [_mv(payload)]), "line": line}], goto_t)
                drop_b = new_block([{"pl": copy.deepcopy(dest), "rv": _agg(OPT, "None", []), "line": line}], goto_t)
                test_b = new_block([], {"k": "switch", "discr": _mv(res), "targets": [[0, drop_b]], "otherwise": keep_b, "discr_ty": "bool", "line": line, "lowered": name})
                pl = plan[variant]
                callee = raws[pl[1]]
                off_l, off_b = len(cur["locals"]), len(cur["blocks"])
                cur["locals"].extend(copy.deepcopy(callee["locals"]))
                nbs = _renumber(callee["blocks"], off_l, off_b)
                for nb in nbs:
                    nb["file"] = callee.get("file")
                    nb["from_closure"] = pl[1]
                    if nb["term"] and nb["term"]["k"] == "return":
                        nb["term"] = {"k": "goto", "target": -1, "line": nb["term"].get("line", line)}
                cur["blocks"].extend(nbs)
                fin_c = new_block([{"pl": {"l": res, "p": []}, "rv": {"k": "use", "o": _mv(off_l)}, "line": line}], {"k": "goto", "target": test_b, "line": line})
                for nb in nbs:
                    if nb["term"] and nb["term"]["k"] == "goto" and nb["term"]["target"] == -1:
                        nb["term"]["target"] = fin_c
                env_ty = callee["locals"][1]["ty"] if len(callee["locals"]) > 1 else ""
                if env_ty.startswith("&"):
                    stmts.append({"pl": {"l": off_l + 1, "p": []}, "rv": {"k": "ref", "mut": env_ty.startswith("&mut"), "pl": {"l": pl[2], "p": []}}, "line": line})
                else:
                    stmts.append({"pl": {"l": off_l + 1, "p": []}, "rv": {"k": "use", "o": _mv(pl[2])}, "line": line})
                stmts.append({"pl": {"l": rf, "p": []}, "rv": {"k": "ref", "mut": False, "pl": {"l": payload, "p": []}}, "line": line})
                stmts.append({"pl": {"l": off_l + 2, "p": []}, "rv": {"k": "use", "o": _mv(rf)}, "line": line})
                arm_blocks[variant] = new_block(stmts, {"k": "goto", "target": off_b, "line": line, "inlined": pl[1]})
            elif act[0] == "filter":
                ok = False
                break
            else:
                wrap = act[3]
                # the arm's result has the closure's return type (keeps boolean results visible to the flag analyses)
                res_ty = "_"
                if plan[variant][0] == "closure" and raws[plan[variant][1]]["locals"]:
                    res_ty = raws[plan[variant][1]]["locals"][0].get("ty", "_")
                elif not wrap and not dest["p"] and dest["l"] < len(cur["locals"]):
                    res_ty = cur["locals"][dest["l"]].get("ty", "_")
                res = new_local(res_ty)
                fin = [{"pl": copy.deepcopy(dest), "rv": (_agg(wrap[0], wrap[1], [_mv(res)]) if wrap else {"k": "use", "o": _mv(res)}), "line": line}]
                ret_b = new_block(fin, goto_t)
                pl = plan[variant]
                if pl[0] == "fn":
                    if pl[1] in CTORS:
                        c = CTORS[pl[1]]
                        stmts.append({"pl": {"l": res, "p": []}, "rv": _agg(c[0], c[1], [_mv(payload)] if payload is not None else []), "line": line})
                        arm_blocks[variant] = new_block(stmts, {"k": "goto", "target": ret_b, "line": line})
                    else:
                        call = {"k": "call", "callee": pl[1], "resolved": pl[1], "local": pl[1] in raws, "resolved_local": pl[1] in raws,
                                "args": [_mv(payload)] if payload is not None else [], "arg_tys": ["_"] if payload is not None else [],
                                "dest": {"l": res, "p": []}, "target": ret_b, "unwind": unwind, "line": line, "fn_line": line}
                        arm_blocks[variant] = new_block(stmts, call)
                else:
                    callee = raws[pl[1]]
                    off_l, off_b = len(cur["locals"]), len(cur["blocks"])
                    cur["locals"].extend(copy.deepcopy(callee["locals"]))
                    nbs = _renumber(callee["blocks"], off_l, off_b)
                    for nb in nbs:
                        nb["file"] = callee.get("file")
                        nb["from_closure"] = pl[1]
                        if nb["term"] and nb["term"]["k"] == "return":
                            nb["term"] = {"k": "goto", "target": -1, "line": nb["term"].get("line", line)}
                    cur["blocks"].extend(nbs)
                    # return value of the closure -> res
                    fin_c = new_block([{"pl": {"l": res, "p": []}, "rv": {"k": "use", "o": _mv(off_l)}, "line": line}], {"k": "goto", "target": ret_b, "line": line})
                    for nb in nbs:
                        if nb["term"] and nb["term"]["k"] == "goto" and nb["term"]["target"] == -1:
                            nb["term"]["target"] = fin_c
                    env_ty = callee["locals"][1]["ty"] if len(callee["locals"]) > 1 else ""
                    if env_ty.startswith("&"):
                        stmts.append({"pl": {"l": off_l + 1, "p": []}, "rv": {"k": "ref", "mut": env_ty.startswith("&mut"), "pl": {"l": pl[2], "p": []}}, "line": line})
                    else:
                        stmts.append({"pl": {"l": off_l + 1, "p": []}, "rv": {"k": "use", "o": _mv(pl[2])}, "line": line})
                    if act[2]:
                        stmts.append({"pl": {"l": off_l + 2, "p": []}, "rv": {"k": "use", "o": _mv(payload)}, "line": line})
                    arm_blocks[variant] = new_block(stmts, {"k": "goto", "target": off_b, "line": line, "inlined": pl[1]})
        blk["stmts"] = blk["stmts"] + [{"pl": {"l": x, "p": []}, "rv": {"k": "use", "o": copy.deepcopy(recv)}, "line": line},
                                       {"pl": {"l": d, "p": []}, "rv": {"k": "discr", "pl": {"l": x, "p": []}}, "line": line}]
        variants = list(arms)
        v1 = next(v for v in variants if VIDX[(adt, v)] == 1)
        v0 = next(v for v in variants if VIDX[(adt, v)] == 0)
        blk["term"] = {"k": "switch", "discr": _mv(d), "targets": [[0, arm_blocks[v0]], [1, arm_blocks[v1]]], "otherwise": arm_blocks[v1],
                       "discr_ty": "isize", "line": line, "lowered": name}
        done.append(name)
    return (out if out is not None else raw), done


def _renumber(x, off_l, off_b):
    """Deep copy of a MIR JSON fragment with locals and block ids shifted."""
    if isinstance(x, dict):
        out = {}
        is_place = "l" in x and "p" in x and isinstance(x.get("p"), list)
        for k, v in x.items():
            if is_place and k == "l":
                out[k] = v + off_l
            elif is_place and k == "p":
                out[k] = [[e[0], e[1] + off_l] + list(e[2:]) if e and e[0] == "i" else copy.deepcopy(e) for e in v]
            elif k in ("target", "unwind", "otherwise", "imaginary", "drop") and isinstance(v, int) and not isinstance(v, bool) and "k" in x:
                out[k] = v + off_b
            elif k == "targets" and isinstance(v, list):
                out[k] = [[e[0], e[1] + off_b] for e in v]
            elif k == "dead" and isinstance(v, int):
                out[k] = v + off_l
            else:
                out[k] = _renumber(v, off_l, off_b)
        return out
    if isinstance(x, list):
        return [_renumber(v, off_l, off_b) for v in x]
    return x


def _eligible(raws, known, caller, t, stack):
    if not t or t.get("k") != "call":
        return None
    for name in (t.get("resolved"), t.get("callee")):
        if not name or name in known or name == caller or name in stack:
            continue
        raw = raws.get(name)
        if raw is None or raw.get("kind") not in ("fn", "method", "assoc_fn", "assocfn", "function"):
            continue
        if raw.get("upvars"):
            continue
        if any(b["term"] and b["term"]["k"] == "yield" for b in raw["blocks"]):
            continue
        if raw.get("argc", 0) != len(t.get("args", [])):
            continue
        return name
    return None


def inline_body(raws, known, path, raw):
    """Returns (new_raw, [inlined helper paths]) or (raw, []) when nothing applies."""
    done = []
    out = None
    # each block remembers the chain of helpers it came from (recursion / depth guard)
    origin = {}
    n = 0
    changed = True
    while changed and n < MAX_PER_BODY:
        changed = False
        cur = out if out is not None else raw
        for bi, blk in enumerate(cur["blocks"]):
            stack = origin.get(bi, ())
            if len(stack) >= MAX_DEPTH:
                continue
            name = _eligible(raws, known, path, blk["term"], stack)
            if name is None:
                continue
            if out is None:
                out = copy.deepcopy(raw)
                cur = out
                blk = cur["blocks"][bi]
            callee = raws[name]
            t = blk["term"]
            off_l, off_b = len(cur["locals"]), len(cur["blocks"])
            cur["locals"].extend(copy.deepcopy(callee["locals"]))
            new_blocks = _renumber(callee["blocks"], off_l, off_b)
            n_callee = len(new_blocks)
            p_idx, r_idx = off_b + n_callee, off_b + n_callee + 1
            line = t.get("line", cur.get("line"))
            for nb_i, nb in enumerate(new_blocks):
                nb["file"] = callee.get("file")
                nb.setdefault("from_fn", name)       # innermost helper the block came from
                if nb["term"] and nb["term"]["k"] == "return":
                    nb["term"] = {"k": "goto", "target": r_idx, "line": nb["term"].get("line", line), "exp": nb["term"].get("exp")}
                origin[off_b + nb_i] = stack + (name,)
            cur["blocks"].extend(new_blocks)
            params = {"cleanup": False, "stmts": [], "term": {"k": "goto", "target": off_b, "line": line}, "inlined_call": name}
            for i, a in enumerate(t.get("args", [])):
                params["stmts"].append({"pl": {"l": off_l + 1 + i, "p": []}, "rv": {"k": "use", "o": copy.deepcopy(a)}, "line": line})
            ret = {"cleanup": False, "stmts": [], "inlined_ret": name, "term": ({"k": "goto", "target": t["target"], "line": line} if t.get("target") is not None
                                                                                        else {"k": "unreachable", "line": line})}
            if blk.get("from_fn"):
                params["from_fn"] = blk["from_fn"]
                ret["from_fn"] = blk["from_fn"]
            if t.get("dest") is not None:
                ret["stmts"].append({"pl": copy.deepcopy(t["dest"]), "rv": {"k": "use", "o": {"k": "move", "pl": {"l": off_l, "p": []}}}, "line": line})
            cur["blocks"].append(params)
            cur["blocks"].append(ret)
            origin[p_idx] = stack
            origin[r_idx] = stack
            blk["term"] = {"k": "goto", "target": p_idx, "line": line, "inlined": name}
            done.append(name)
            n += 1
            changed = True
            break
    return (out if out is not None else raw), done


def apply(prog, Body):
    """Rewrite prog.bodies / prog.elab in place; records prog.inlined = {caller: [helpers]} and prog.new_functions."""
    known = load_known()
    prog.inlined = {}
    prog.new_functions = []
    if known is None:
        return
    known_combs, untracked = load_known_combinators()
    prog.lowered = {}
    _KNOWN_FNS[0] = known
    for table_name in ("bodies", "elab"):
        table = getattr(prog, table_name)
        raws = {p: b.raw for p, b in table.items()}
        # closures first, so that a closure inlined into its parent has already been lowered itself
        for p in sorted(table, key=lambda q: -q.count("::{closure#")):
            b = table[p]
            if b.kind not in ("fn", "method", "closure", "coroutine"):
                continue
            owner = owner_fn(p)
            skip = (known_combs.get(owner, set()) if owner in known else set()) | untracked
            new_raw, done = lower_body(raws, p, b.raw, skip)
            if done:
                raws[p] = new_raw
                table[p] = Body(p, new_raw, b.crate, b.config, elab=b.elab)
                if table_name == "bodies":
                    prog.lowered[p] = done
        new_fns = sorted(p for p, r in raws.items() if p not in known and r.get("kind") in ("fn", "method", "assoc_fn", "assocfn", "function"))
        if table_name == "bodies":
            prog.new_functions = new_fns
        for p in (list(table) if new_fns else []):
            # (helpers keep their own bodies as well — rules may still look at them — with their own new callees inlined)
            b = table[p]
            raw0 = b.raw
            if any(bl_["term"] and bl_["term"].get("k") == "call" and (bl_["term"].get("callee") or "").endswith("str::<impl str>::parse") for bl_ in raw0["blocks"]):
                pre = copy.deepcopy(raw0)
                if _resolve_closure_calls(raws, pre):
                    raw0 = pre
            new_raw, done = inline_body(raws, known, p, raw0)
            if done:
                # a closure handed to a generic helper (`fn run<F: FnOnce(..)>(.., f: F) { .. f(x) .. }`) is called there through an
                # unresolved Fn* call; once the helper's body sits in the caller the closure value is in sight, and the call is the
                # closure's body like any `let f = |x| ..; f(x)`
                # (.. and a closure body that is now in place may itself call a new helper, `nested(|p| p.parse_array_body())`: a few rounds)
                for _round in range(3):
                    if not _resolve_closure_calls(raws, new_raw):
                        break
                    owner = owner_fn(p)
                    skip = (known_combs.get(owner, set()) if owner in known else set()) | untracked
                    raws[p] = new_raw
                    lowered_raw, ldone = lower_body(raws, p, new_raw, skip - {CLOSURE_CALL})
                    if ldone:
                        new_raw = lowered_raw
                    raws[p] = new_raw
                    again_raw, adone = inline_body(raws, known, p, new_raw)
                    raws[p] = b.raw
                    if adone:
                        new_raw = again_raw
                        done = done + [x for x in adone if x not in done]
                    if not ldone and not adone:
                        break
                table[p] = Body(p, new_raw, b.crate, b.config, elab=b.elab)
                if table_name == "bodies":
                    prog.inlined[p] = done
        if table_name == "bodies":
            # coroutine bodies of new `async fn` helpers whose every poll was replaced by the body itself: looked at where they were inlined
            prog.awaited_inlined = set()
            for caller, cbody in table.items():
                for blk in cbody.raw["blocks"]:
                    fc = blk.get("from_closure")
                    if fc and fc in table and table[fc].kind == "coroutine" and owner_fn(fc) not in known:
                        prog.awaited_inlined.add(fc)
            still_polled = set()
            for caller, cbody in table.items():
                for blk in cbody.raw["blocks"]:
                    t = blk["term"]
                    if t and t.get("k") == "call" and (t.get("callee") or "").endswith("Future::poll") and t.get("resolved") in prog.awaited_inlined:
                        still_polled.add(t["resolved"])
            prog.awaited_inlined -= still_polled
        if table_name == "bodies":
            # closures defined inside an inlined helper, or inside a closure whose body was inlined by the combinator lowering, are now
            # built in the caller as well: their captured values are described there
            for caller, cbody in table.items():
                hosts_ = set(prog.inlined.get(caller, [])) | set(blk.get("from_closure") for blk in cbody.raw["blocks"] if blk.get("from_closure"))
                if not hosts_:
                    continue
                for cp, cb in table.items():
                    if cp != caller and cb.kind in ("closure", "coroutine") and cb.parent in hosts_ and cp not in prog.extra_closures.get(caller, []):
                        prog.extra_closures.setdefault(caller, []).append(cp)

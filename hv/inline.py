"""Normalisation: helper functions that did not exist on the tree the rules were anchored on are inlined into their callers.

Most rules are intraprocedural (must-pass-through, dominance, value descriptions).  An "extract method" refactoring moves part of
an anchored function into a new private helper and would make such a rule lose sight of it — in both directions: a harmless
refactoring would look like a missing step, and a defect could hide in the helper.  Before any rule runs, every call whose resolved
callee is a workspace function *not listed in oracles/known_fns.json* (the functions of the pinned tree) is therefore replaced by the
callee's body (locals and blocks renumbered, arguments assigned to the parameters, `return` turned into an assignment of the
destination and a jump to the call's successor), transitively up to depth 4 and 60 inlinings per body, never recursively.
Functions that exist on the pinned tree are never inlined: rules that name them keep their anchors.
"""
import copy
import json
import os

VERIF = os.path.dirname(os.path.dirname(os.path.abspath(__file__)))
KNOWN = os.path.join(VERIF, "oracles", "known_fns.json")
MAX_DEPTH = 4
MAX_PER_BODY = 60


def load_known():
    try:
        with open(KNOWN) as fh:
            return set(json.load(fh)["functions"])
    except (OSError, ValueError, KeyError):
        return None


def _renumber(x, off_l, off_b):
    """Deep copy of a MIR JSON fragment with locals and block ids shifted."""
    if isinstance(x, dict):
        out = {}
        is_place = "l" in x and "p" in x and isinstance(x.get("p"), list)
        for k, v in x.items():
            if is_place and k == "l":
                out[k] = v + off_l
            elif is_place and k == "p":
                out[k] = [[e[0], e[1] + off_l] + list(e[2:]) if e and e[0] == "i" else copy.deepcopy(e) for e in v]
            elif k in ("target", "unwind", "otherwise", "imaginary", "drop") and isinstance(v, int) and not isinstance(v, bool) and "k" in x:
                out[k] = v + off_b
            elif k == "targets" and isinstance(v, list):
                out[k] = [[e[0], e[1] + off_b] for e in v]
            elif k == "dead" and isinstance(v, int):
                out[k] = v + off_l
            else:
                out[k] = _renumber(v, off_l, off_b)
        return out
    if isinstance(x, list):
        return [_renumber(v, off_l, off_b) for v in x]
    return x


def _eligible(raws, known, caller, t, stack):
    if not t or t.get("k") != "call":
        return None
    for name in (t.get("resolved"), t.get("callee")):
        if not name or name in known or name == caller or name in stack:
            continue
        raw = raws.get(name)
        if raw is None or raw.get("kind") not in ("fn", "method", "assoc_fn", "assocfn", "function"):
            continue
        if raw.get("upvars"):
            continue
        if any(b["term"] and b["term"]["k"] == "yield" for b in raw["blocks"]):
            continue
        if raw.get("argc", 0) != len(t.get("args", [])):
            continue
        return name
    return None


def inline_body(raws, known, path, raw):
    """Returns (new_raw, [inlined helper paths]) or (raw, []) when nothing applies."""
    done = []
    out = None
    # each block remembers the chain of helpers it came from (recursion / depth guard)
    origin = {}
    n = 0
    changed = True
    while changed and n < MAX_PER_BODY:
        changed = False
        cur = out if out is not None else raw
        for bi, blk in enumerate(cur["blocks"]):
            stack = origin.get(bi, ())
            if len(stack) >= MAX_DEPTH:
                continue
            name = _eligible(raws, known, path, blk["term"], stack)
            if name is None:
                continue
            if out is None:
                out = copy.deepcopy(raw)
                cur = out
                blk = cur["blocks"][bi]
            callee = raws[name]
            t = blk["term"]
            off_l, off_b = len(cur["locals"]), len(cur["blocks"])
            cur["locals"].extend(copy.deepcopy(callee["locals"]))
            new_blocks = _renumber(callee["blocks"], off_l, off_b)
            n_callee = len(new_blocks)
            p_idx, r_idx = off_b + n_callee, off_b + n_callee + 1
            line = t.get("line", cur.get("line"))
            for nb_i, nb in enumerate(new_blocks):
                nb["file"] = callee.get("file")
                if nb["term"] and nb["term"]["k"] == "return":
                    nb["term"] = {"k": "goto", "target": r_idx, "line": nb["term"].get("line", line), "exp": nb["term"].get("exp")}
                origin[off_b + nb_i] = stack + (name,)
            cur["blocks"].extend(new_blocks)
            params = {"cleanup": False, "stmts": [], "term": {"k": "goto", "target": off_b, "line": line}, "inlined_call": name}
            for i, a in enumerate(t.get("args", [])):
                params["stmts"].append({"pl": {"l": off_l + 1 + i, "p": []}, "rv": {"k": "use", "o": copy.deepcopy(a)}, "line": line})
            ret = {"cleanup": False, "stmts": [], "term": ({"k": "goto", "target": t["target"], "line": line} if t.get("target") is not None
                                                               else {"k": "unreachable", "line": line})}
            if t.get("dest") is not None:
                ret["stmts"].append({"pl": copy.deepcopy(t["dest"]), "rv": {"k": "use", "o": {"k": "move", "pl": {"l": off_l, "p": []}}}, "line": line})
            cur["blocks"].append(params)
            cur["blocks"].append(ret)
            origin[p_idx] = stack
            origin[r_idx] = stack
            blk["term"] = {"k": "goto", "target": p_idx, "line": line, "inlined": name}
            done.append(name)
            n += 1
            changed = True
            break
    return (out if out is not None else raw), done


def apply(prog, Body):
    """Rewrite prog.bodies / prog.elab in place; records prog.inlined = {caller: [helpers]} and prog.new_functions."""
    known = load_known()
    prog.inlined = {}
    prog.new_functions = []
    if known is None:
        return
    for table_name in ("bodies", "elab"):
        table = getattr(prog, table_name)
        raws = {p: b.raw for p, b in table.items()}
        new_fns = sorted(p for p, r in raws.items() if p not in known and r.get("kind") in ("fn", "method", "assoc_fn", "assocfn", "function"))
        if table_name == "bodies":
            prog.new_functions = new_fns
        if not new_fns:
            continue
        for p in list(table):
            if p in new_fns:
                continue            # helpers keep their own bodies as well (rules may still look at them)
            b = table[p]
            new_raw, done = inline_body(raws, known, p, b.raw)
            if done:
                table[p] = Body(p, new_raw, b.crate, b.config, elab=b.elab)
                if table_name == "bodies":
                    prog.inlined[p] = done
        if table_name == "bodies":
            # closures defined inside an inlined helper now also belong to the caller
            for caller, helpers in prog.inlined.items():
                for cp, cb in table.items():
                    if cb.kind in ("closure", "coroutine") and cb.parent in helpers:
                        prog.extra_closures.setdefault(caller, []).append(cp)

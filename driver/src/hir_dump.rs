use crate::json::J;
use crate::mir_dump::{expn_tag, full_path, line_of, ty_str};
use rustc_ast::LitKind;
use rustc_hir as hir;
use rustc_hir::def::{DefKind, Res};
use rustc_middle::ty::{TyCtxt, TypeckResults};

struct Cx<'a, 'tcx> {
    tcx: TyCtxt<'tcx>,
    tr: &'a TypeckResults<'tcx>,
}

fn lit_j(l: &hir::Lit, negated: bool) -> J {
    match &l.node {
        LitKind::Str(s, _) => J::Obj(vec![("e", J::s("Lit")), ("t", J::s("str")), ("v", J::s(s.to_string()))]),
        LitKind::ByteStr(b, _) | LitKind::CStr(b, _) => J::Obj(vec![
            ("e", J::s("Lit")),
            ("t", J::s("bytes")),
            ("v", J::Arr(b.as_byte_str().iter().map(|x| J::Int(*x as i128)).collect())),
        ]),
        LitKind::Byte(b) => J::Obj(vec![("e", J::s("Lit")), ("t", J::s("byte")), ("v", J::Int(*b as i128))]),
        LitKind::Char(c) => J::Obj(vec![
            ("e", J::s("Lit")),
            ("t", J::s("char")),
            ("v", J::Int(*c as u32 as i128)),
            ("ch", J::s(c.to_string())),
        ]),
        LitKind::Int(i, _) => {
            let v = i.get();
            let j = if v > i64::MAX as u128 { J::s(v.to_string()) } else { J::Int(if negated { -(v as i128) } else { v as i128 }) };
            J::Obj(vec![("e", J::s("Lit")), ("t", J::s("int")), ("v", j)])
        }
        LitKind::Float(s, _) => J::Obj(vec![
            ("e", J::s("Lit")),
            ("t", J::s("float")),
            ("v", J::s(format!("{}{}", if negated { "-" } else { "" }, s))),
        ]),
        LitKind::Bool(b) => J::Obj(vec![("e", J::s("Lit")), ("t", J::s("bool")), ("v", J::Bool(*b))]),
        LitKind::Err(_) => J::Obj(vec![("e", J::s("Lit")), ("t", J::s("err"))]),
    }
}

impl<'a, 'tcx> Cx<'a, 'tcx> {
    fn res_j(&self, res: Res) -> Vec<(&'static str, J)> {
        match res {
            Res::Def(kind, did) => {
                let mut v = vec![
                    ("res", J::s(format!("{:?}", kind))),
                    ("path", J::s(full_path(self.tcx, did))),
                ];
                // for enum variant constructors, also give the variant's own path
                if let DefKind::Ctor(..) = kind {
                    let parent = self.tcx.parent(did);
                    v.push(("ctor_of", J::s(full_path(self.tcx, parent))));
                }
                v
            }
            Res::Local(id) => {
                let name = self.tcx.hir_name(id).to_string();
                vec![("res", J::s("Local")), ("name", J::s(name)), ("id", J::s(format!("{}", id.local_id.as_usize())))]
            }
            Res::SelfTyAlias { .. } | Res::SelfTyParam { .. } => vec![("res", J::s("SelfTy"))],
            Res::SelfCtor(did) => vec![("res", J::s("SelfCtor")), ("path", J::s(full_path(self.tcx, did)))],
            Res::PrimTy(p) => vec![("res", J::s("PrimTy")), ("name", J::s(p.name_str()))],
            other => vec![("res", J::s(format!("{:?}", other)))],
        }
    }

    fn qpath(&self, qp: &hir::QPath<'tcx>, id: hir::HirId) -> Vec<(&'static str, J)> {
        let res = self.tr.qpath_res(qp, id);
        let mut v = self.res_j(res);
        // last segment name, handy for SelfTy-relative paths
        let seg = match qp {
            hir::QPath::Resolved(_, p) => p.segments.last().map(|s| s.ident.to_string()),
            hir::QPath::TypeRelative(_, s) => Some(s.ident.to_string()),
        };
        if let Some(s) = seg {
            v.push(("seg", J::s(s)));
        }
        v
    }

    fn pat_expr(&self, pe: &hir::PatExpr<'tcx>) -> J {
        match &pe.kind {
            hir::PatExprKind::Lit { lit, negated } => lit_j(lit, *negated),
            hir::PatExprKind::Path(qp) => {
                let mut o = vec![("e", J::s("Path"))];
                o.extend(self.qpath(qp, pe.hir_id));
                J::Obj(o)
            }
        }
    }

    fn pat(&self, p: &hir::Pat<'tcx>) -> J {
        match &p.kind {
            hir::PatKind::Wild => J::Obj(vec![("p", J::s("Wild"))]),
            hir::PatKind::Missing => J::Obj(vec![("p", J::s("Missing"))]),
            hir::PatKind::Never => J::Obj(vec![("p", J::s("Never"))]),
            hir::PatKind::Binding(_, id, ident, sub) => {
                let mut o = vec![
                    ("p", J::s("Bind")),
                    ("name", J::s(ident.to_string())),
                    ("id", J::s(format!("{}", id.local_id.as_usize()))),
                ];
                if let Some(s) = sub {
                    o.push(("sub", self.pat(s)));
                }
                J::Obj(o)
            }
            hir::PatKind::Struct(qp, fields, _) => {
                let mut o = vec![("p", J::s("Struct"))];
                o.extend(self.qpath(qp, p.hir_id));
                o.push((
                    "fields",
                    J::Arr(
                        fields
                            .iter()
                            .map(|f| J::Obj(vec![("name", J::s(f.ident.to_string())), ("pat", self.pat(f.pat))]))
                            .collect(),
                    ),
                ));
                J::Obj(o)
            }
            hir::PatKind::TupleStruct(qp, pats, _) => {
                let mut o = vec![("p", J::s("TupleStruct"))];
                o.extend(self.qpath(qp, p.hir_id));
                o.push(("pats", J::Arr(pats.iter().map(|x| self.pat(x)).collect())));
                J::Obj(o)
            }
            hir::PatKind::Or(pats) => {
                J::Obj(vec![("p", J::s("Or")), ("pats", J::Arr(pats.iter().map(|x| self.pat(x)).collect()))])
            }
            hir::PatKind::Tuple(pats, _) => {
                J::Obj(vec![("p", J::s("Tuple")), ("pats", J::Arr(pats.iter().map(|x| self.pat(x)).collect()))])
            }
            hir::PatKind::Box(x) | hir::PatKind::Deref(x) => self.pat(x),
            hir::PatKind::Ref(x, _, _) => J::Obj(vec![("p", J::s("Ref")), ("pat", self.pat(x))]),
            hir::PatKind::Expr(pe) => J::Obj(vec![("p", J::s("Expr")), ("expr", self.pat_expr(pe))]),
            hir::PatKind::Guard(x, g) => {
                J::Obj(vec![("p", J::s("Guard")), ("pat", self.pat(x)), ("guard", self.expr(g))])
            }
            hir::PatKind::Range(lo, hi, end) => J::Obj(vec![
                ("p", J::s("Range")),
                ("lo", lo.map(|x| self.pat_expr(x)).unwrap_or(J::Null)),
                ("hi", hi.map(|x| self.pat_expr(x)).unwrap_or(J::Null)),
                ("inclusive", J::Bool(matches!(end, hir::RangeEnd::Included))),
            ]),
            hir::PatKind::Slice(a, m, b) => J::Obj(vec![
                ("p", J::s("Slice")),
                ("before", J::Arr(a.iter().map(|x| self.pat(x)).collect())),
                ("mid", m.map(|x| self.pat(x)).unwrap_or(J::Null)),
                ("after", J::Arr(b.iter().map(|x| self.pat(x)).collect())),
            ]),
            hir::PatKind::Err(_) => J::Obj(vec![("p", J::s("Err"))]),
        }
    }

    fn block(&self, b: &hir::Block<'tcx>) -> J {
        let mut stmts = Vec::new();
        for s in b.stmts {
            match &s.kind {
                hir::StmtKind::Let(l) => {
                    let mut o = vec![("s", J::s("Let")), ("pat", self.pat(l.pat))];
                    if let Some(i) = l.init {
                        o.push(("init", self.expr(i)));
                    }
                    if let Some(e) = l.els {
                        o.push(("els", self.block(e)));
                    }
                    stmts.push(J::Obj(o));
                }
                hir::StmtKind::Item(_) => {}
                hir::StmtKind::Expr(e) => stmts.push(J::Obj(vec![("s", J::s("Expr")), ("expr", self.expr(e))])),
                hir::StmtKind::Semi(e) => stmts.push(J::Obj(vec![("s", J::s("Semi")), ("expr", self.expr(e))])),
            }
        }
        let mut o = vec![("e", J::s("Block")), ("stmts", J::Arr(stmts))];
        if let Some(e) = b.expr {
            o.push(("tail", self.expr(e)));
        }
        J::Obj(o)
    }

    fn expr(&self, e: &hir::Expr<'tcx>) -> J {
        let mut o: Vec<(&'static str, J)> = Vec::new();
        match &e.kind {
            hir::ExprKind::Lit(l) => return lit_j(l, false),
            hir::ExprKind::Path(qp) => {
                o.push(("e", J::s("Path")));
                o.extend(self.qpath(qp, e.hir_id));
            }
            hir::ExprKind::Call(f, args) => {
                o.push(("e", J::s("Call")));
                o.push(("f", self.expr(f)));
                o.push(("args", J::Arr(args.iter().map(|a| self.expr(a)).collect())));
            }
            hir::ExprKind::MethodCall(seg, recv, args, _) => {
                o.push(("e", J::s("MethodCall")));
                o.push(("name", J::s(seg.ident.to_string())));
                if let Some(did) = self.tr.type_dependent_def_id(e.hir_id) {
                    o.push(("path", J::s(full_path(self.tcx, did))));
                }
                o.push(("recv_ty", J::s(ty_str(self.tr.expr_ty_adjusted(recv)))));
                o.push(("recv", self.expr(recv)));
                o.push(("args", J::Arr(args.iter().map(|a| self.expr(a)).collect())));
            }
            hir::ExprKind::Tup(xs) => {
                o.push(("e", J::s("Tup")));
                o.push(("xs", J::Arr(xs.iter().map(|a| self.expr(a)).collect())));
            }
            hir::ExprKind::Array(xs) => {
                o.push(("e", J::s("Array")));
                o.push(("xs", J::Arr(xs.iter().map(|a| self.expr(a)).collect())));
            }
            hir::ExprKind::Binary(op, a, b) => {
                o.push(("e", J::s("Binary")));
                o.push(("op", J::s(format!("{:?}", op.node))));
                o.push(("l", self.expr(a)));
                o.push(("r", self.expr(b)));
            }
            hir::ExprKind::Unary(op, a) => {
                o.push(("e", J::s("Unary")));
                o.push(("op", J::s(format!("{:?}", op))));
                o.push(("x", self.expr(a)));
            }
            hir::ExprKind::Cast(a, _) => {
                o.push(("e", J::s("Cast")));
                o.push(("x", self.expr(a)));
                o.push(("ty", J::s(ty_str(self.tr.expr_ty(e)))));
            }
            hir::ExprKind::Type(a, _) | hir::ExprKind::DropTemps(a) | hir::ExprKind::Use(a, _) => {
                return self.expr(a);
            }
            hir::ExprKind::Let(l) => {
                o.push(("e", J::s("Let")));
                o.push(("pat", self.pat(l.pat)));
                o.push(("init", self.expr(l.init)));
            }
            hir::ExprKind::If(c, t, f) => {
                o.push(("e", J::s("If")));
                o.push(("cond", self.expr(c)));
                o.push(("then", self.expr(t)));
                if let Some(f) = f {
                    o.push(("else", self.expr(f)));
                }
            }
            hir::ExprKind::Loop(b, _, src, _) => {
                o.push(("e", J::s("Loop")));
                o.push(("src", J::s(format!("{:?}", src))));
                o.push(("body", self.block(b)));
            }
            hir::ExprKind::Match(s, arms, src) => {
                o.push(("e", J::s("Match")));
                o.push(("src", J::s(format!("{:?}", src))));
                o.push(("scrut_ty", J::s(ty_str(self.tr.expr_ty(s)))));
                o.push(("scrut", self.expr(s)));
                o.push((
                    "arms",
                    J::Arr(
                        arms.iter()
                            .map(|a| {
                                let mut ao = vec![("pat", self.pat(a.pat))];
                                if let Some(g) = a.guard {
                                    ao.push(("guard", self.expr(g)));
                                }
                                ao.push(("body", self.expr(a.body)));
                                let (_, l) = line_of(self.tcx, a.span);
                                ao.push(("line", J::Int(l as i128)));
                                J::Obj(ao)
                            })
                            .collect(),
                    ),
                ));
            }
            hir::ExprKind::Closure(c) => {
                o.push(("e", J::s("Closure")));
                o.push(("def", J::s(full_path(self.tcx, c.def_id.to_def_id()))));
                let body = self.tcx.hir_body(c.body);
                o.push(("params", J::Arr(body.params.iter().map(|p| self.pat(p.pat)).collect())));
                o.push(("body", self.expr(body.value)));
            }
            hir::ExprKind::Block(b, _) => return self.block(b),
            hir::ExprKind::Assign(a, b, _) => {
                o.push(("e", J::s("Assign")));
                o.push(("l", self.expr(a)));
                o.push(("r", self.expr(b)));
            }
            hir::ExprKind::AssignOp(op, a, b) => {
                o.push(("e", J::s("AssignOp")));
                o.push(("op", J::s(format!("{:?}", op.node))));
                o.push(("l", self.expr(a)));
                o.push(("r", self.expr(b)));
            }
            hir::ExprKind::Field(a, ident) => {
                o.push(("e", J::s("Field")));
                o.push(("name", J::s(ident.to_string())));
                o.push(("x", self.expr(a)));
                o.push(("x_ty", J::s(ty_str(self.tr.expr_ty_adjusted(a)))));
            }
            hir::ExprKind::Index(a, b, _) => {
                o.push(("e", J::s("Index")));
                o.push(("x", self.expr(a)));
                o.push(("i", self.expr(b)));
                o.push(("x_ty", J::s(ty_str(self.tr.expr_ty_adjusted(a)))));
            }
            hir::ExprKind::AddrOf(_, m, a) => {
                o.push(("e", J::s("AddrOf")));
                o.push(("mut", J::Bool(matches!(m, hir::Mutability::Mut))));
                o.push(("x", self.expr(a)));
            }
            hir::ExprKind::Break(_, a) => {
                o.push(("e", J::s("Break")));
                if let Some(a) = a {
                    o.push(("x", self.expr(a)));
                }
            }
            hir::ExprKind::Continue(_) => o.push(("e", J::s("Continue"))),
            hir::ExprKind::Ret(a) => {
                o.push(("e", J::s("Ret")));
                if let Some(a) = a {
                    o.push(("x", self.expr(a)));
                }
            }
            hir::ExprKind::Struct(qp, fields, tail) => {
                o.push(("e", J::s("Struct")));
                o.extend(self.qpath(qp, e.hir_id));
                o.push(("ty", J::s(ty_str(self.tr.expr_ty(e)))));
                o.push((
                    "fields",
                    J::Arr(
                        fields
                            .iter()
                            .map(|f| J::Obj(vec![("name", J::s(f.ident.to_string())), ("x", self.expr(f.expr))]))
                            .collect(),
                    ),
                ));
                if let hir::StructTailExpr::Base(b) = tail {
                    o.push(("base", self.expr(b)));
                }
            }
            hir::ExprKind::Repeat(a, _) => {
                o.push(("e", J::s("Repeat")));
                o.push(("x", self.expr(a)));
                o.push(("ty", J::s(ty_str(self.tr.expr_ty(e)))));
            }
            hir::ExprKind::Yield(a, _) => {
                o.push(("e", J::s("Yield")));
                o.push(("x", self.expr(a)));
            }
            hir::ExprKind::ConstBlock(_) => o.push(("e", J::s("ConstBlock"))),
            hir::ExprKind::Become(a) => {
                o.push(("e", J::s("Become")));
                o.push(("x", self.expr(a)));
            }
            hir::ExprKind::InlineAsm(_) => o.push(("e", J::s("InlineAsm"))),
            hir::ExprKind::OffsetOf(..) => o.push(("e", J::s("OffsetOf"))),
            hir::ExprKind::UnsafeBinderCast(_, a, _) => return self.expr(a),
            hir::ExprKind::Err(_) => o.push(("e", J::s("Err"))),
        }
        let (_, l) = line_of(self.tcx, e.span);
        o.push(("line", J::Int(l as i128)));
        if let Some(t) = expn_tag(e.span) {
            o.push(("exp", J::s(t)));
        }
        J::Obj(o)
    }
}

pub fn dump_all<'tcx>(tcx: TyCtxt<'tcx>) -> Vec<(String, J)> {
    let mut out = Vec::new();
    for ldid in tcx.hir_body_owners() {
        let did = ldid.to_def_id();
        let dk = tcx.def_kind(did);
        if matches!(dk, DefKind::Closure) {
            continue; // dumped inline in the parent
        }
        let tr = tcx.typeck(ldid);
        let Some(body) = tcx.hir_maybe_body_owned_by(ldid) else { continue };
        let cx = Cx { tcx, tr };
        let (file, line) = line_of(tcx, body.value.span);
        let mut o = vec![
            ("kind", J::s(format!("{:?}", dk))),
            ("file", J::s(file)),
            ("line", J::Int(line as i128)),
            ("params", J::Arr(body.params.iter().map(|p| cx.pat(p.pat)).collect())),
            ("ty", J::s(ty_str(tr.expr_ty(body.value)))),
            ("body", cx.expr(body.value)),
        ];
        if let Some(t) = expn_tag(tcx.def_span(did)) {
            o.push(("exp", J::s(t)));
        }
        out.push((full_path(tcx, did), J::Obj(o)));
    }
    out
}

use crate::json::J;
use rustc_hir::def::DefKind;
use rustc_middle::mir::interpret::Scalar;
use rustc_middle::mir::*;
use rustc_middle::ty::print::{with_crate_prefix, with_no_trimmed_paths};
use std::cell::RefCell;

thread_local! {
    pub static CRATE: RefCell<String> = RefCell::new(String::new());
}

/// Print with `crate::` prefixes for local items and replace them by the crate's name, so that
/// every path and type string in the facts is crate-qualified.
pub fn qualify(s: String) -> String {
    if !s.contains("crate::") {
        return s;
    }
    CRATE.with(|c| s.replace("crate::", &format!("{}::", c.borrow())))
}

use rustc_middle::ty::{self, Ty, TyCtxt};
use rustc_span::def_id::DefId;
use rustc_span::{ExpnKind, Span};

pub fn full_path<'tcx>(tcx: TyCtxt<'tcx>, did: DefId) -> String {
    qualify(with_crate_prefix!(with_no_trimmed_paths!(tcx.def_path_str(did))))
}

pub fn full_path_args<'tcx>(
    tcx: TyCtxt<'tcx>,
    did: DefId,
    args: ty::GenericArgsRef<'tcx>,
) -> String {
    qualify(with_crate_prefix!(with_no_trimmed_paths!(tcx.def_path_str_with_args(did, args))))
}

pub fn ty_str<'tcx>(ty: Ty<'tcx>) -> String {
    qualify(with_crate_prefix!(with_no_trimmed_paths!(ty.to_string())))
}

pub fn line_of<'tcx>(tcx: TyCtxt<'tcx>, span: Span) -> (String, usize) {
    let sm = tcx.sess.source_map();
    let sp = if span.from_expansion() { span.source_callsite() } else { span };
    let lo = sm.lookup_char_pos(sp.lo());
    let fname = match &lo.file.name {
        rustc_span::FileName::Real(r) => match r.local_path() {
            Some(p) => p.to_string_lossy().to_string(),
            None => format!("{:?}", r),
        },
        other => format!("{:?}", other),
    };
    (fname, lo.line)
}

/// Name of the outermost macro / desugaring this span comes from, if any.
pub fn expn_tag(span: Span) -> Option<String> {
    if !span.from_expansion() {
        return None;
    }
    let mut tags: Vec<String> = Vec::new();
    let mut sp = span;
    let mut n = 0;
    while sp.from_expansion() && n < 8 {
        let d = sp.ctxt().outer_expn_data();
        match d.kind {
            ExpnKind::Macro(_, name) => tags.push(name.to_string()),
            ExpnKind::Desugaring(k) => tags.push(format!("desugar:{:?}", k)),
            ExpnKind::AstPass(k) => tags.push(format!("ast:{:?}", k)),
            ExpnKind::Root => {}
        }
        sp = d.call_site;
        n += 1;
    }
    Some(tags.join("<"))
}

fn jline<'tcx>(tcx: TyCtxt<'tcx>, span: Span, obj: &mut Vec<(&'static str, J)>) {
    let (_, line) = line_of(tcx, span);
    obj.push(("line", J::Int(line as i128)));
    if let Some(t) = expn_tag(span) {
        obj.push(("exp", J::s(t)));
    }
}

pub fn place<'tcx>(tcx: TyCtxt<'tcx>, p: &Place<'tcx>) -> J {
    let mut proj = Vec::new();
    for e in p.projection.iter() {
        let j = match e {
            ProjectionElem::Deref => J::Arr(vec![J::s("d")]),
            ProjectionElem::Field(f, ty) => {
                J::Arr(vec![J::s("f"), J::Int(f.as_usize() as i128), J::s(ty_str(ty))])
            }
            ProjectionElem::Index(l) => J::Arr(vec![J::s("i"), J::Int(l.as_usize() as i128)]),
            ProjectionElem::ConstantIndex { offset, min_length, from_end } => J::Arr(vec![
                J::s("ci"),
                J::Int(offset as i128),
                J::Int(min_length as i128),
                J::Bool(from_end),
            ]),
            ProjectionElem::Subslice { from, to, from_end } => J::Arr(vec![
                J::s("sub"),
                J::Int(from as i128),
                J::Int(to as i128),
                J::Bool(from_end),
            ]),
            ProjectionElem::Downcast(name, idx) => J::Arr(vec![
                J::s("dc"),
                J::opt_s(name.map(|s| s.to_string())),
                J::Int(idx.as_usize() as i128),
            ]),
            ProjectionElem::OpaqueCast(_) => J::Arr(vec![J::s("oc")]),
            ProjectionElem::UnwrapUnsafeBinder(_) => J::Arr(vec![J::s("ub")]),
        };
        proj.push(j);
    }
    let _ = tcx;
    J::Obj(vec![("l", J::Int(p.local.as_usize() as i128)), ("p", J::Arr(proj))])
}

fn bytes_to_j(bytes: &[u8], as_str: bool) -> J {
    if as_str {
        if let Ok(s) = std::str::from_utf8(bytes) {
            return J::s(s);
        }
    }
    J::Arr(bytes.iter().map(|b| J::Int(*b as i128)).collect())
}

fn const_val<'tcx>(tcx: TyCtxt<'tcx>, val: ConstValue, ty: Ty<'tcx>, out: &mut Vec<(&'static str, J)>) {
    match val {
        ConstValue::Scalar(Scalar::Int(i)) => {
            let size = i.size();
            let bits = i.to_bits(size);
            let v: i128 = match ty.kind() {
                ty::Int(_) => {
                    // sign extend
                    let sh = 128 - size.bits();
                    if sh >= 128 { 0 } else { ((bits << sh) as i128) >> sh }
                }
                _ => bits as i128,
            };
            match ty.kind() {
                ty::Bool => out.push(("v", J::Bool(bits != 0))),
                ty::Char => {
                    out.push(("v", J::Int(v)));
                    if let Some(c) = char::from_u32(bits as u32) {
                        out.push(("ch", J::s(c.to_string())));
                    }
                }
                ty::Float(_) => {
                    out.push(("bits", J::s(format!("{}", bits))));
                }
                _ => {
                    if bits > i64::MAX as u128 && !matches!(ty.kind(), ty::Int(_)) {
                        out.push(("v", J::s(format!("{}", bits))));
                    } else {
                        out.push(("v", J::Int(v)));
                    }
                }
            }
        }
        ConstValue::Scalar(Scalar::Ptr(ptr, _)) => {
            // &[u8; N] byte strings and similar: read the pointee when it is a byte array
            if let ty::Ref(_, inner, _) = ty.kind() {
                if let ty::Array(elem, _) = inner.kind() {
                    if matches!(elem.kind(), ty::Uint(ty::UintTy::U8)) {
                        let (prov, off) = ptr.prov_and_relative_offset();
                        if let Some(rustc_middle::mir::interpret::GlobalAlloc::Memory(a)) =
                            tcx.try_get_global_alloc(prov.alloc_id())
                        {
                            let a = a.inner();
                            let start = off.bytes() as usize;
                            let len = a.len();
                            if start <= len {
                                let bytes =
                                    a.inspect_with_uninit_and_ptr_outside_interpreter(start..len);
                                out.push(("bytes", bytes_to_j(bytes, false)));
                            }
                        }
                    }
                }
            }
        }
        ConstValue::ZeroSized => {}
        ConstValue::Slice { .. } => {
            if let ty::Ref(_, inner, _) = ty.kind() {
                let is_str = matches!(inner.kind(), ty::Str);
                let is_u8 = matches!(inner.kind(), ty::Slice(e) if matches!(e.kind(), ty::Uint(ty::UintTy::U8)));
                if is_str || is_u8 {
                    if let Some(b) = val.try_get_slice_bytes_for_diagnostics(tcx) {
                        if is_str {
                            out.push(("v", bytes_to_j(b, true)));
                        } else {
                            out.push(("bytes", bytes_to_j(b, false)));
                        }
                    }
                }
            }
        }
        ConstValue::Indirect { .. } => {}
    }
}

pub fn operand<'tcx>(tcx: TyCtxt<'tcx>, op: &Operand<'tcx>) -> J {
    match op {
        Operand::Copy(p) => J::Obj(vec![("k", J::s("copy")), ("pl", place(tcx, p))]),
        Operand::Move(p) => J::Obj(vec![("k", J::s("move")), ("pl", place(tcx, p))]),
        Operand::Constant(c) => {
            let mut o: Vec<(&'static str, J)> = vec![("k", J::s("const"))];
            let ty = c.const_.ty();
            o.push(("ty", J::s(ty_str(ty))));
            match ty.kind() {
                ty::FnDef(did, args) => {
                    o.push(("fn", J::s(full_path(tcx, *did))));
                    o.push(("fn_args", J::s(full_path_args(tcx, *did, args))));
                }
                _ => {}
            }
            match c.const_ {
                Const::Val(v, ty) => const_val(tcx, v, ty, &mut o),
                Const::Unevaluated(u, _) => {
                    o.push(("def", J::s(full_path(tcx, u.def))));
                    if let Some(p) = u.promoted {
                        o.push(("promoted", J::Int(p.as_usize() as i128)));
                    }
                }
                Const::Ty(_, c) => {
                    o.push(("tyconst", J::s(with_no_trimmed_paths!(format!("{}", c)))));
                }
            }
            o.push(("repr", J::s(with_no_trimmed_paths!(format!("{}", c.const_)))));
            J::Obj(o)
        }
        #[allow(unreachable_patterns)]
        _ => J::Obj(vec![("k", J::s("other")), ("dbg", J::s(format!("{:?}", op)))]),
    }
}

fn rvalue<'tcx>(tcx: TyCtxt<'tcx>, rv: &Rvalue<'tcx>) -> J {
    match rv {
        Rvalue::Use(op, ..) => J::Obj(vec![("k", J::s("use")), ("o", operand(tcx, op))]),
        Rvalue::Repeat(op, n) => J::Obj(vec![
            ("k", J::s("repeat")),
            ("o", operand(tcx, op)),
            ("n", J::s(with_no_trimmed_paths!(format!("{}", n)))),
        ]),
        Rvalue::Ref(_, bk, p) => J::Obj(vec![
            ("k", J::s("ref")),
            ("mut", J::Bool(matches!(bk, BorrowKind::Mut { .. }))),
            ("pl", place(tcx, p)),
        ]),
        Rvalue::RawPtr(_, p) => J::Obj(vec![("k", J::s("rawptr")), ("pl", place(tcx, p))]),
        Rvalue::Cast(ck, op, ty) => J::Obj(vec![
            ("k", J::s("cast")),
            ("ck", J::s(format!("{:?}", ck))),
            ("o", operand(tcx, op)),
            ("ty", J::s(ty_str(*ty))),
        ]),
        Rvalue::BinaryOp(op, b) => J::Obj(vec![
            ("k", J::s("bin")),
            ("op", J::s(format!("{:?}", op))),
            ("l", operand(tcx, &b.0)),
            ("r", operand(tcx, &b.1)),
        ]),
        Rvalue::UnaryOp(op, o) => J::Obj(vec![
            ("k", J::s("un")),
            ("op", J::s(format!("{:?}", op))),
            ("o", operand(tcx, o)),
        ]),
        Rvalue::Discriminant(p) => J::Obj(vec![("k", J::s("discr")), ("pl", place(tcx, p))]),
        Rvalue::CopyForDeref(p) => J::Obj(vec![
            ("k", J::s("use")),
            ("o", J::Obj(vec![("k", J::s("copy")), ("pl", place(tcx, p))])),
        ]),
        Rvalue::Aggregate(kind, ops) => {
            let mut o: Vec<(&'static str, J)> = vec![("k", J::s("agg"))];
            match &**kind {
                AggregateKind::Array(t) => {
                    o.push(("agg", J::s("array")));
                    o.push(("ty", J::s(ty_str(*t))));
                }
                AggregateKind::Tuple => o.push(("agg", J::s("tuple"))),
                AggregateKind::Adt(did, vidx, _args, _, active_field) => {
                    o.push(("agg", J::s("adt")));
                    o.push(("adt", J::s(full_path(tcx, *did))));
                    let adt = tcx.adt_def(*did);
                    let v = adt.variant(*vidx);
                    o.push(("variant", J::s(v.name.to_string())));
                    o.push(("vidx", J::Int(vidx.as_usize() as i128)));
                    o.push((
                        "fields",
                        J::Arr(v.fields.iter().map(|f| J::s(f.name.to_string())).collect()),
                    ));
                    if let Some(f) = active_field {
                        o.push(("active", J::Int(f.as_usize() as i128)));
                    }
                }
                AggregateKind::Closure(did, _) => {
                    o.push(("agg", J::s("closure")));
                    o.push(("def", J::s(full_path(tcx, *did))));
                }
                AggregateKind::Coroutine(did, _) => {
                    o.push(("agg", J::s("coroutine")));
                    o.push(("def", J::s(full_path(tcx, *did))));
                }
                AggregateKind::CoroutineClosure(did, _) => {
                    o.push(("agg", J::s("coroutine_closure")));
                    o.push(("def", J::s(full_path(tcx, *did))));
                }
                AggregateKind::RawPtr(..) => o.push(("agg", J::s("rawptr"))),
            }
            o.push(("ops", J::Arr(ops.iter().map(|x| operand(tcx, x)).collect())));
            J::Obj(o)
        }
        Rvalue::ThreadLocalRef(d) => {
            J::Obj(vec![("k", J::s("tls")), ("def", J::s(full_path(tcx, *d)))])
        }
        other => J::Obj(vec![("k", J::s("other")), ("dbg", J::s(format!("{:?}", other)))]),
    }
}

fn unwind_j(u: &UnwindAction) -> J {
    match u {
        UnwindAction::Cleanup(bb) => J::Int(bb.as_usize() as i128),
        _ => J::Null,
    }
}

fn terminator<'tcx>(tcx: TyCtxt<'tcx>, body: &Body<'tcx>, t: &Terminator<'tcx>) -> J {
    let mut o: Vec<(&'static str, J)> = Vec::new();
    match &t.kind {
        TerminatorKind::Goto { target } => {
            o.push(("k", J::s("goto")));
            o.push(("target", J::Int(target.as_usize() as i128)));
        }
        TerminatorKind::SwitchInt { discr, targets } => {
            o.push(("k", J::s("switch")));
            o.push(("discr", operand(tcx, discr)));
            let mut ts = Vec::new();
            for (v, bb) in targets.iter() {
                ts.push(J::Arr(vec![
                    if v > i64::MAX as u128 { J::s(v.to_string()) } else { J::Int(v as i128) },
                    J::Int(bb.as_usize() as i128),
                ]));
            }
            o.push(("targets", J::Arr(ts)));
            o.push(("otherwise", J::Int(targets.otherwise().as_usize() as i128)));
            o.push(("discr_ty", J::s(ty_str(discr.ty(body, tcx)))));
        }
        TerminatorKind::UnwindResume => o.push(("k", J::s("resume"))),
        TerminatorKind::UnwindTerminate(_) => o.push(("k", J::s("terminate"))),
        TerminatorKind::Return => o.push(("k", J::s("return"))),
        TerminatorKind::Unreachable => o.push(("k", J::s("unreachable"))),
        TerminatorKind::Drop { place: p, target, unwind, .. } => {
            o.push(("k", J::s("drop")));
            o.push(("pl", place(tcx, p)));
            o.push(("target", J::Int(target.as_usize() as i128)));
            o.push(("unwind", unwind_j(unwind)));
            o.push(("ty", J::s(ty_str(p.ty(body, tcx).ty))));
        }
        TerminatorKind::Call { func, args, destination, target, unwind, fn_span, .. } => {
            o.push(("k", J::s("call")));
            let fty = func.ty(body, tcx);
            match fty.kind() {
                ty::FnDef(did, gargs) => {
                    o.push(("callee", J::s(full_path(tcx, *did))));
                    o.push(("callee_args", J::s(full_path_args(tcx, *did, gargs))));
                    o.push((
                        "gargs",
                        J::Arr(
                            gargs
                                .iter()
                                .filter_map(|a| a.as_type())
                                .map(|t| J::s(ty_str(t)))
                                .collect(),
                        ),
                    ));
                    o.push(("local", J::Bool(did.is_local())));
                    // trait method?
                    if let Some(tr) = tcx.trait_of_assoc(*did) {
                        o.push(("trait", J::s(full_path(tcx, tr))));
                    }
                    let owner = body.source.def_id();
                    let env = ty::TypingEnv::post_analysis(tcx, owner);
                    if let Ok(Some(inst)) = ty::Instance::try_resolve(tcx, env, *did, gargs) {
                        let rd = inst.def_id();
                        o.push(("resolved", J::s(full_path(tcx, rd))));
                        o.push(("resolved_local", J::Bool(rd.is_local())));
                        if matches!(inst.def, ty::InstanceKind::Virtual(..)) {
                            o.push(("virtual", J::Bool(true)));
                        }
                    }
                }
                _ => {
                    o.push(("callee", J::Null));
                    o.push(("fn_operand", operand(tcx, func)));
                    o.push(("fn_ty", J::s(ty_str(fty))));
                }
            }
            o.push(("args", J::Arr(args.iter().map(|a| operand(tcx, &a.node)).collect())));
            o.push((
                "arg_tys",
                J::Arr(args.iter().map(|a| J::s(ty_str(a.node.ty(body, tcx)))).collect()),
            ));
            o.push(("dest", place(tcx, destination)));
            o.push((
                "target",
                match target {
                    Some(t) => J::Int(t.as_usize() as i128),
                    None => J::Null,
                },
            ));
            o.push(("unwind", unwind_j(unwind)));
            let (_, l) = line_of(tcx, *fn_span);
            o.push(("fn_line", J::Int(l as i128)));
        }
        TerminatorKind::TailCall { .. } => o.push(("k", J::s("tailcall"))),
        TerminatorKind::Assert { cond, expected, msg, target, unwind } => {
            o.push(("k", J::s("assert")));
            o.push(("cond", operand(tcx, cond)));
            o.push(("expected", J::Bool(*expected)));
            let (kind, ops): (String, Vec<J>) = match &**msg {
                AssertKind::BoundsCheck { len, index } => {
                    ("bounds".into(), vec![operand(tcx, len), operand(tcx, index)])
                }
                AssertKind::Overflow(op, a, b) => {
                    (format!("overflow:{:?}", op), vec![operand(tcx, a), operand(tcx, b)])
                }
                AssertKind::OverflowNeg(a) => ("overflow_neg".into(), vec![operand(tcx, a)]),
                AssertKind::DivisionByZero(a) => ("div_zero".into(), vec![operand(tcx, a)]),
                AssertKind::RemainderByZero(a) => ("rem_zero".into(), vec![operand(tcx, a)]),
                other => (format!("other:{:?}", std::mem::discriminant(other)), vec![]),
            };
            o.push(("akind", J::s(kind)));
            o.push(("ops", J::Arr(ops)));
            o.push(("target", J::Int(target.as_usize() as i128)));
            o.push(("unwind", unwind_j(unwind)));
        }
        TerminatorKind::Yield { value, resume, resume_arg, drop } => {
            o.push(("k", J::s("yield")));
            o.push(("value", operand(tcx, value)));
            o.push(("target", J::Int(resume.as_usize() as i128)));
            o.push(("resume_arg", place(tcx, resume_arg)));
            o.push((
                "drop",
                match drop {
                    Some(d) => J::Int(d.as_usize() as i128),
                    None => J::Null,
                },
            ));
        }
        TerminatorKind::CoroutineDrop => o.push(("k", J::s("coroutine_drop"))),
        TerminatorKind::FalseEdge { real_target, imaginary_target } => {
            o.push(("k", J::s("false_edge")));
            o.push(("target", J::Int(real_target.as_usize() as i128)));
            o.push(("imaginary", J::Int(imaginary_target.as_usize() as i128)));
        }
        TerminatorKind::FalseUnwind { real_target, .. } => {
            o.push(("k", J::s("false_unwind")));
            o.push(("target", J::Int(real_target.as_usize() as i128)));
        }
        TerminatorKind::InlineAsm { .. } => o.push(("k", J::s("asm"))),
    }
    jline(tcx, t.source_info.span, &mut o);
    J::Obj(o)
}

pub fn dump_body<'tcx>(tcx: TyCtxt<'tcx>, body: &Body<'tcx>, elab: bool) -> (String, J) {
    let did = body.source.def_id();
    let mut path = full_path(tcx, did);
    if let Some(p) = body.source.promoted {
        path = format!("{}::promoted[{}]", path, p.as_usize());
    }
    let dk = tcx.def_kind(did);
    let kind = match dk {
        DefKind::Fn => "fn",
        DefKind::AssocFn => "method",
        DefKind::Closure => {
            if tcx.is_coroutine(did) {
                "coroutine"
            } else {
                "closure"
            }
        }
        DefKind::Const { .. } | DefKind::AssocConst { .. } => "const",
        DefKind::Static { .. } => "static",
        DefKind::AnonConst | DefKind::InlineConst => "anonconst",
        _ => "other",
    };
    let mut o: Vec<(&'static str, J)> = vec![("kind", J::s(kind))];
    let (file, line) = line_of(tcx, body.span);
    o.push(("file", J::s(file)));
    o.push(("line", J::Int(line as i128)));
    o.push(("argc", J::Int(body.arg_count as i128)));
    if matches!(dk, DefKind::Closure) {
        o.push(("parent", J::s(full_path(tcx, tcx.parent(did)))));
    }
    // locals
    let mut names: Vec<Option<String>> = vec![None; body.local_decls.len()];
    let mut upvars: Vec<J> = Vec::new();
    for vdi in &body.var_debug_info {
        if let VarDebugInfoContents::Place(p) = &vdi.value {
            if p.projection.is_empty() {
                names[p.local.as_usize()] = Some(vdi.name.to_string());
            } else if p.local.as_usize() == 1 {
                // closure / coroutine upvar: _1.N or (*_1).N [deref]
                let mut field: Option<usize> = None;
                let mut by_ref = false;
                let mut seen_field = false;
                for e in p.projection.iter() {
                    match e {
                        ProjectionElem::Field(f, _) if !seen_field => {
                            field = Some(f.as_usize());
                            seen_field = true;
                        }
                        ProjectionElem::Deref if seen_field => by_ref = true,
                        _ => {}
                    }
                }
                if let Some(f) = field {
                    upvars.push(J::Obj(vec![
                        ("name", J::s(vdi.name.to_string())),
                        ("field", J::Int(f as i128)),
                        ("by_ref", J::Bool(by_ref)),
                    ]));
                }
            }
        }
    }
    let mut locals = Vec::new();
    for (i, d) in body.local_decls.iter_enumerated() {
        let mut lo: Vec<(&'static str, J)> = vec![("ty", J::s(ty_str(d.ty)))];
        if let Some(n) = &names[i.as_usize()] {
            lo.push(("name", J::s(n.clone())));
        }
        if !elab && d.is_user_variable() {
            lo.push(("user", J::Bool(true)));
        }
        locals.push(J::Obj(lo));
    }
    o.push(("locals", J::Arr(locals)));
    o.push(("upvars", J::Arr(upvars)));
    // blocks
    let mut blocks = Vec::new();
    for (_bb, data) in body.basic_blocks.iter_enumerated() {
        let mut stmts = Vec::new();
        for s in &data.statements {
            match &s.kind {
                StatementKind::Assign(b) => {
                    let (p, rv) = &**b;
                    let mut so: Vec<(&'static str, J)> =
                        vec![("pl", place(tcx, p)), ("rv", rvalue(tcx, rv))];
                    // the discriminant of an enum from another crate (io::ErrorKind, ..): its variant names are not among this
                    // crate's items, so they travel with the read
                    if let Rvalue::Discriminant(dp) = rv {
                        let dty = dp.ty(&body.local_decls, tcx).ty;
                        if let rustc_middle::ty::Adt(adt, _) = dty.kind() {
                            if adt.is_enum() && !adt.did().is_local() && adt.variants().len() <= 96 {
                                let mut vs = Vec::new();
                                for (vi, d) in adt.discriminants(tcx) {
                                    vs.push(J::Arr(vec![
                                        J::Int(d.val as i128),
                                        J::s(adt.variant(vi).name.to_string()),
                                    ]));
                                }
                                so.push(("ext_enum", J::s(ty_str(dty))));
                                so.push(("ext_variants", J::Arr(vs)));
                            }
                        }
                    }
                    jline(tcx, s.source_info.span, &mut so);
                    stmts.push(J::Obj(so));
                }
                StatementKind::SetDiscriminant { place: p, variant_index } => {
                    let mut so: Vec<(&'static str, J)> = vec![
                        ("pl", place(tcx, p)),
                        (
                            "rv",
                            J::Obj(vec![
                                ("k", J::s("setdiscr")),
                                ("vidx", J::Int(variant_index.as_usize() as i128)),
                            ]),
                        ),
                    ];
                    jline(tcx, s.source_info.span, &mut so);
                    stmts.push(J::Obj(so));
                }
                StatementKind::StorageDead(l) => {
                    stmts.push(J::Obj(vec![("dead", J::Int(l.as_usize() as i128))]));
                }
                _ => {}
            }
        }
        let term = match &data.terminator {
            Some(t) => terminator(tcx, body, t),
            None => J::Null,
        };
        blocks.push(J::Obj(vec![
            ("cleanup", J::Bool(data.is_cleanup)),
            ("stmts", J::Arr(stmts)),
            ("term", term),
        ]));
    }
    o.push(("blocks", J::Arr(blocks)));
    (path, J::Obj(o))
}

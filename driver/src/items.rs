use crate::json::J;
use crate::mir_dump::{full_path, line_of, ty_str};
use rustc_ast::tokenstream::{TokenStream, TokenTree};
use rustc_hir as hir;
use rustc_hir::def::DefKind;
use rustc_middle::ty::print::with_no_trimmed_paths;
use rustc_middle::ty::TyCtxt;

fn tt_j(ts: &TokenStream) -> J {
    let mut v = Vec::new();
    for tt in ts.iter() {
        match tt {
            TokenTree::Token(tok, _) => {
                let s = rustc_ast_pretty::pprust::token_kind_to_string(&tok.kind).to_string();
                v.push(J::s(s));
            }
            TokenTree::Delimited(_, _, delim, inner) => {
                let d = match delim {
                    rustc_ast::token::Delimiter::Parenthesis => "(",
                    rustc_ast::token::Delimiter::Brace => "{",
                    rustc_ast::token::Delimiter::Bracket => "[",
                    _ => "inv",
                };
                v.push(J::Obj(vec![("d", J::s(d)), ("tts", tt_j(inner))]));
            }
        }
    }
    J::Arr(v)
}

pub fn dump_items<'tcx>(tcx: TyCtxt<'tcx>) -> J {
    let mut enums: Vec<(String, J)> = Vec::new();
    let mut structs: Vec<(String, J)> = Vec::new();
    let mut macros: Vec<(String, J)> = Vec::new();
    let mut fns: Vec<(String, J)> = Vec::new();
    let mut aliases: Vec<(String, J)> = Vec::new();

    for id in tcx.hir_free_items() {
        let item = tcx.hir_item(id);
        let did = item.owner_id.to_def_id();
        match &item.kind {
            hir::ItemKind::Enum(..) => {
                let adt = tcx.adt_def(did);
                let mut vs = Vec::new();
                for (vi, v) in adt.variants().iter_enumerated() {
                    let discr = adt.discriminant_for_variant(tcx, vi).val;
                    vs.push(J::Obj(vec![
                        ("name", J::s(v.name.to_string())),
                        ("discr", J::Int(discr as i128)),
                        (
                            "fields",
                            J::Arr(
                                v.fields
                                    .iter()
                                    .map(|f| {
                                        J::Obj(vec![
                                            ("name", J::s(f.name.to_string())),
                                            ("ty", J::s(ty_str(tcx.type_of(f.did).instantiate_identity().skip_norm_wip()))),
                                        ])
                                    })
                                    .collect(),
                            ),
                        ),
                    ]));
                }
                let (file, line) = line_of(tcx, item.span);
                enums.push((
                    full_path(tcx, did),
                    J::Obj(vec![("variants", J::Arr(vs)), ("file", J::s(file)), ("line", J::Int(line as i128))]),
                ));
            }
            hir::ItemKind::Struct(..) => {
                let adt = tcx.adt_def(did);
                let v = adt.non_enum_variant();
                let fields: Vec<J> = v
                    .fields
                    .iter()
                    .map(|f| {
                        J::Obj(vec![
                            ("name", J::s(f.name.to_string())),
                            ("ty", J::s(ty_str(tcx.type_of(f.did).instantiate_identity().skip_norm_wip()))),
                            ("pub", J::Bool(f.vis.is_public())),
                        ])
                    })
                    .collect();
                let (file, line) = line_of(tcx, item.span);
                structs.push((
                    full_path(tcx, did),
                    J::Obj(vec![("fields", J::Arr(fields)), ("file", J::s(file)), ("line", J::Int(line as i128))]),
                ));
            }
            hir::ItemKind::Use(path, hir::UseKind::Single(ident)) => {
                if !tcx.visibility(did).is_public() {
                    continue;
                }
                let parent = tcx.parent(did);
                let mut ppath = full_path(tcx, parent);
                if ppath == "crate" {
                    ppath = tcx.crate_name(rustc_span::def_id::LOCAL_CRATE).to_string();
                }
                let alias = format!("{}::{}", ppath, ident);
                for res in [path.res.type_ns, path.res.value_ns] {
                    if let Some(rustc_hir::def::Res::Def(_, target)) = res {
                        let canon = full_path(tcx, target);
                        if canon != alias {
                            aliases.push((alias.clone(), J::s(canon)));
                        }
                        break;
                    }
                }
            }
            hir::ItemKind::Macro(ident, def, _) => {
                let (file, line) = line_of(tcx, item.span);
                macros.push((
                    ident.to_string(),
                    J::Obj(vec![
                        ("path", J::s(full_path(tcx, did))),
                        ("file", J::s(file)),
                        ("line", J::Int(line as i128)),
                        ("macro_rules", J::Bool(def.macro_rules)),
                        ("tts", tt_j(&def.body.tokens)),
                    ]),
                ));
            }
            _ => {}
        }
    }

    for ldid in tcx.hir_body_owners() {
        let did = ldid.to_def_id();
        let dk = tcx.def_kind(did);
        if !matches!(dk, DefKind::Fn | DefKind::AssocFn) {
            continue;
        }
        let mut o: Vec<(&'static str, J)> = vec![("pub", J::Bool(tcx.visibility(did).is_public()))];
        if let Some(imp) = tcx.impl_of_assoc(did) {
            o.push(("impl_self", J::s(ty_str(tcx.type_of(imp).instantiate_identity().skip_norm_wip()))));
            if let Some(tr) = tcx.impl_opt_trait_ref(imp) {
                let tr = tr.instantiate_identity().skip_norm_wip();
                o.push(("impl_trait", J::s(full_path(tcx, tr.def_id))));
                o.push(("impl_trait_ref", J::s(crate::mir_dump::qualify(rustc_middle::ty::print::with_crate_prefix!(with_no_trimmed_paths!(format!("{}", tr)))))));
            }
            if let Some(ti) = tcx.trait_item_of(did) {
                o.push(("trait_item", J::s(full_path(tcx, ti))));
            }
        }
        if let Some(tr) = tcx.trait_of_assoc(did) {
            o.push(("in_trait", J::s(full_path(tcx, tr))));
        }
        let sig = tcx.fn_sig(did).instantiate_identity().skip_norm_wip();
        o.push(("sig", J::s(crate::mir_dump::qualify(rustc_middle::ty::print::with_crate_prefix!(with_no_trimmed_paths!(format!("{}", sig)))))));
        fns.push((full_path(tcx, did), J::Obj(o)));
    }

    J::Obj(vec![
        ("enums", J::Map(enums)),
        ("structs", J::Map(structs)),
        ("macros", J::Map(macros)),
        ("fns", J::Map(fns)),
        ("aliases", J::Map(aliases)),
    ])
}

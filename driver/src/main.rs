//! hv-driver: rustc_private fact extractor for the Humphrey static checks.
//!
//! Used as RUSTC_WORKSPACE_WRAPPER under `cargo +nightly check`: argv[1] is the real rustc and is
//! dropped. For every workspace crate compiled, writes `$HV_OUT/<crate>[.<tag>].json` with
//!   * pre-borrowck MIR (`mir_promoted`, cloned before it is stolen) of every body, callees
//!     resolved, constants decoded;
//!   * drop-elaborated MIR (`optimized_mir`, run with -Zmir-opt-level=0) of non-coroutine bodies;
//!   * the HIR expression tree of every body with paths / method calls resolved;
//!   * enums, structs, impl membership, `macro_rules!` token trees.
//! Nothing is executed; the crate is only type-checked.
#![feature(rustc_private)]

extern crate rustc_abi;
extern crate rustc_ast;
extern crate rustc_ast_pretty;
extern crate rustc_data_structures;
extern crate rustc_driver;
extern crate rustc_hir;
extern crate rustc_index;
extern crate rustc_interface;
extern crate rustc_middle;
extern crate rustc_session;
extern crate rustc_span;

mod hir_dump;
mod items;
mod json;
mod mir_dump;

use json::J;
use rustc_driver::{Callbacks, Compilation};
use rustc_interface::interface::{Compiler, Config};
use rustc_middle::mir::Body;
use rustc_middle::ty::TyCtxt;
use rustc_span::def_id::LocalDefId;
use std::sync::{Mutex, OnceLock};

type MirPromotedFn = for<'tcx> fn(
    TyCtxt<'tcx>,
    LocalDefId,
) -> (
    &'tcx rustc_data_structures::steal::Steal<Body<'tcx>>,
    &'tcx rustc_data_structures::steal::Steal<
        rustc_index::IndexVec<rustc_middle::mir::Promoted, Body<'tcx>>,
    >,
);

static ORIG_MIR_PROMOTED: OnceLock<MirPromotedFn> = OnceLock::new();
/// Raw pointers (as usize) to leaked clones of `Body<'tcx>`; only dereferenced in
/// `after_analysis` of the same compilation session, while the arenas are alive.
static BODIES: Mutex<Vec<usize>> = Mutex::new(Vec::new());

fn my_mir_promoted<'tcx>(
    tcx: TyCtxt<'tcx>,
    did: LocalDefId,
) -> (
    &'tcx rustc_data_structures::steal::Steal<Body<'tcx>>,
    &'tcx rustc_data_structures::steal::Steal<
        rustc_index::IndexVec<rustc_middle::mir::Promoted, Body<'tcx>>,
    >,
) {
    let orig = ORIG_MIR_PROMOTED.get().expect("orig provider");
    let r = orig(tcx, did);
    {
        let b = r.0.borrow();
        let cloned: Box<Body<'tcx>> = Box::new((*b).clone());
        let p = Box::into_raw(cloned) as usize;
        BODIES.lock().unwrap().push(p);
        let pr = r.1.borrow();
        for pb in pr.iter() {
            let cloned: Box<Body<'tcx>> = Box::new(pb.clone());
            BODIES.lock().unwrap().push(Box::into_raw(cloned) as usize);
        }
    }
    r
}

struct Cb;

impl Callbacks for Cb {
    fn config(&mut self, config: &mut Config) {
        config.override_queries = Some(|_sess, providers| {
            let _ = ORIG_MIR_PROMOTED.set(providers.queries.mir_promoted);
            providers.queries.mir_promoted = my_mir_promoted;
        });
    }

    fn after_analysis<'tcx>(&mut self, _c: &Compiler, tcx: TyCtxt<'tcx>) -> Compilation {
        let out_dir = match std::env::var("HV_OUT") {
            Ok(d) => d,
            Err(_) => return Compilation::Continue,
        };
        let krate = tcx.crate_name(rustc_span::def_id::LOCAL_CRATE).to_string();
        let only: Option<Vec<String>> = std::env::var("HV_CRATES")
            .ok()
            .map(|s| s.split(',').map(|x| x.to_string()).collect());
        if let Some(only) = &only {
            if !only.iter().any(|c| c == &krate) {
                return Compilation::Continue;
            }
        }
        mir_dump::CRATE.with(|c| *c.borrow_mut() = krate.clone());
        let ptrs: Vec<usize> = std::mem::take(&mut *BODIES.lock().unwrap());
        let mut bodies: Vec<(String, J)> = Vec::new();
        for p in ptrs {
            // SAFETY: pointer produced by Box::into_raw above in this same session.
            let body: Box<Body<'tcx>> = unsafe { Box::from_raw(p as *mut Body<'tcx>) };
            let (path, j) = mir_dump::dump_body(tcx, &body, false);
            bodies.push((path, j));
        }
        // elaborated MIR for non-coroutine fn-like bodies
        let mut elab: Vec<(String, J)> = Vec::new();
        let want_elab = std::env::var("HV_ELAB").map(|v| v != "0").unwrap_or(true);
        if want_elab {
            for ldid in tcx.hir_body_owners() {
                let did = ldid.to_def_id();
                use rustc_hir::def::DefKind;
                match tcx.def_kind(did) {
                    DefKind::Fn | DefKind::AssocFn | DefKind::Closure => {}
                    _ => continue,
                }
                if tcx.is_coroutine(did) {
                    continue;
                }
                let body = tcx.optimized_mir(did);
                let (path, j) = mir_dump::dump_body(tcx, body, true);
                elab.push((path, j));
            }
        }
        let hir = hir_dump::dump_all(tcx);
        let items = items::dump_items(tcx);
        let doc = J::Obj(vec![
            ("crate", J::s(krate.clone())),
            ("tag", J::s(std::env::var("HV_TAG").unwrap_or_default())),
            ("bodies", J::Map(bodies)),
            ("elab", J::Map(elab)),
            ("hir", J::Map(hir)),
            ("items", items),
        ]);
        let mut s = String::with_capacity(1 << 22);
        doc.write(&mut s);
        let is_bin = tcx
            .crate_types()
            .iter()
            .any(|t| matches!(t, rustc_session::config::CrateType::Executable));
        let fname = format!(
            "{}/{}{}.json",
            out_dir,
            krate,
            if is_bin { ".bin" } else { "" }
        );
        std::fs::create_dir_all(&out_dir).ok();
        std::fs::write(&fname, s).expect("write facts");
        Compilation::Continue
    }
}

fn main() {
    let mut args: Vec<String> = std::env::args().collect();
    // RUSTC_WORKSPACE_WRAPPER: argv[1] is the path of the real rustc.
    if args.len() > 1 && (args[1].ends_with("rustc") || args[1].contains("/rustc")) {
        args.remove(1);
    }
    rustc_driver::run_compiler(&args, &mut Cb);
}
